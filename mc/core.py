"""Explorer core: explicit-state search helpers, task pool, aggregation.

Every property module (mc/props/cNN.py) provides

    ID, TITLE, RULE, ASSUMPTIONS
    plan(tier, seed)      -> list of JSON-able task dicts (each names its 'space')
    run_task(task, R)     -> enumerates the task's sub-space with an Explorer,
                             evaluates every terminal state on the real code via
                             evaluate(inp) and hands the verdict to R.record()
    evaluate(inp)         -> Verdict  (also used by --replay, without explorer)
    classify(violation, finding) -> bool   (defect-aware known-finding predicate)
"""
import collections
import json
import multiprocessing
import os
import sys
import time
import traceback


class Verdict:
    __slots__ = ('ok', 'cls', 'expected', 'observed', 'nontrivial', 'outcome', 'skip', 'tags')

    def __init__(self, ok=True, cls='', expected=None, observed=None, nontrivial=True,
                 outcome='ok', skip=False, tags=()):
        self.ok = ok
        self.cls = cls
        self.expected = expected
        self.observed = observed
        self.nontrivial = nontrivial
        self.outcome = outcome
        self.skip = skip          # outside the property's domain (counted, not judged)
        self.tags = tags


def bad(cls, expected=None, observed=None, outcome=None, **kw):
    return Verdict(ok=False, cls=cls, expected=expected, observed=observed,
                   outcome=outcome or ('bad:' + cls), **kw)


class Explorer:
    """Explicit-state search over a transition system given by `succ`.

    A state is any hashable canonical value.  `succ(s)` yields successor states
    (one transition each).  With dedup=True a `seen` set is kept (distinct
    canonical states are expanded once); with dedup=False the system must be a
    tree (unique derivation per state) — this is what the grammar generators
    guarantee by construction, and it is cross-checked at the core bound by
    check_tree()."""

    def __init__(self, dedup=True):
        self.states = 0
        self.transitions = 0
        self.dedup = dedup
        self.seen = set()
        self.duplicates = 0

    def run(self, init, succ, emit):
        """Depth-first, yields every reached state s with emit(s) true."""
        self.states += 1
        if self.dedup:
            self.seen.add(init)
        stack = [init]
        while stack:
            s = stack.pop()
            if emit(s):
                yield s
            for t in succ(s):
                self.transitions += 1
                if self.dedup:
                    if t in self.seen:
                        self.duplicates += 1
                        continue
                    self.seen.add(t)
                self.states += 1
                stack.append(t)

    def run_bfs(self, init, succ, emit):
        self.states += 1
        if self.dedup:
            self.seen.add(init)
        frontier = collections.deque([init])
        while frontier:
            s = frontier.popleft()
            if emit(s):
                yield s
            for t in succ(s):
                self.transitions += 1
                if self.dedup:
                    if t in self.seen:
                        self.duplicates += 1
                        continue
                    self.seen.add(t)
                self.states += 1
                frontier.append(t)


class Result:
    """Counters of one task (worker side) or of a whole run (parent side)."""
    MAX_VIOL = 40
    MAX_OUTCOMES = 20000

    def __init__(self):
        self.states = 0
        self.transitions = 0
        self.evaluations = 0
        self.nontrivial = 0
        self.skipped = 0
        self.nviol = 0
        self.violations = []
        self.viol_classes = collections.Counter()
        self.outcomes = set()
        self.samples = []
        self.counters = collections.Counter()
        self.caps = []
        self.exhaustive = True
        self.spaces = collections.OrderedDict()
        self._space = None
        self.matcher = None       # violation -> id of the known finding it matches (or None)
        self.known_counts = collections.Counter()

    # -- worker side -------------------------------------------------------
    def begin(self, space):
        self._space = space
        self.spaces.setdefault(space, collections.Counter())

    def add_explorer(self, ex):
        self.states += ex.states
        self.transitions += ex.transitions
        if self._space is not None:
            self.spaces[self._space]['states'] += ex.states
            self.spaces[self._space]['transitions'] += ex.transitions

    def count(self, key, n=1):
        self.counters[key] += n

    def cap(self, text):
        self.caps.append(text)
        self.exhaustive = False

    def record(self, inp, v):
        self.evaluations += 1
        sp = self.spaces[self._space] if self._space is not None else None
        if sp is not None:
            sp['evaluations'] += 1
        if v.skip:
            self.skipped += 1
            self.counters['out_of_domain:' + v.outcome] += 1
            if sp is not None:
                sp['out_of_domain'] += 1
            return
        if v.nontrivial:
            self.nontrivial += 1
            if sp is not None:
                sp['nontrivial'] += 1
        for t in v.tags:
            self.counters[t] += 1
        if len(self.outcomes) < self.MAX_OUTCOMES:
            self.outcomes.add(v.outcome)
        n = self.evaluations
        if n in (1, 2, 50, 1000, 20000, 400000) and len(self.samples) < 6:
            self.samples.append({'space': self._space, 'input': inp, 'outcome': v.outcome})
        if not v.ok:
            self.nviol += 1
            if sp is not None:
                sp['violations'] += 1
            self.viol_classes[v.cls] += 1
            # keep the smallest witnesses per class
            item = {'space': self._space, 'input': inp, 'cls': v.cls,
                    'expected': v.expected, 'observed': v.observed}
            # known findings are recognised before any trimming so that a new violation of the same
            # class can never be crowded out by recorded ones
            item['known'] = self.matcher(item) if self.matcher else None
            if item['known']:
                self.known_counts[item['known']] += 1
            self.violations.append(item)
            if len(self.violations) > 4 * self.MAX_VIOL:
                self._trim()

    def _trim(self):
        by = collections.defaultdict(list)
        for it in self.violations:
            by[(it.get('known'), it['cls'])].append(it)
        out = []
        per = max(2, self.MAX_VIOL // max(1, len(by)))
        for cls, its in by.items():
            its.sort(key=lambda it: (len(json.dumps(it['input'], default=str)), json.dumps(it['input'], default=str)))
            out.extend(its[:per])
        self.violations = out

    # -- parent side -------------------------------------------------------
    def merge(self, o):
        self.states += o.states
        self.transitions += o.transitions
        self.evaluations += o.evaluations
        self.nontrivial += o.nontrivial
        self.skipped += o.skipped
        self.nviol += o.nviol
        self.violations.extend(o.violations)
        self.viol_classes.update(o.viol_classes)
        self.known_counts.update(o.known_counts)
        if len(self.outcomes) < self.MAX_OUTCOMES:
            self.outcomes |= o.outcomes
        for s in o.samples:
            if len(self.samples) < 8:
                self.samples.append(s)
        self.counters.update(o.counters)
        self.caps.extend(o.caps)
        self.exhaustive = self.exhaustive and o.exhaustive
        for k, c in o.spaces.items():
            self.spaces.setdefault(k, collections.Counter()).update(c)
        if len(self.violations) > 4 * self.MAX_VIOL:
            self._trim()


_MOD = None
_MATCHER = None


def _worker(args):
    idx, task = args
    R = Result()
    R.matcher = _MATCHER
    t0 = time.time()
    try:
        from . import repo
        with repo.quiet():
            R.begin(task.get('space', 'main'))
            _MOD.run_task(task, R)
    except Exception:
        return idx, None, traceback.format_exc(), time.time() - t0
    R._trim()
    R.matcher = None        # not picklable, only needed on the worker side
    return idx, R, None, time.time() - t0


def run_tasks(mod, tasks, jobs, budget=None, matcher=None):
    """Run all tasks on a fork pool; returns merged Result, list of errors."""
    global _MOD, _MATCHER
    _MOD = mod
    _MATCHER = matcher
    total = Result()
    errors = []
    t0 = time.time()
    results = {}
    if jobs <= 1:
        for i, t in enumerate(tasks):
            if budget and time.time() - t0 > budget:
                total.cap('time budget %ss reached before task %d/%d' % (budget, i, len(tasks)))
                break
            results[i] = _worker((i, t))
    else:
        ctx = multiprocessing.get_context('fork')
        with ctx.Pool(jobs) as pool:
            it = pool.imap_unordered(_worker, list(enumerate(tasks)), chunksize=1)
            done = 0
            for r in it:
                results[r[0]] = r
                done += 1
                if budget and time.time() - t0 > budget and done < len(tasks):
                    total.cap('time budget %ss reached after %d/%d tasks' % (budget, done, len(tasks)))
                    pool.terminate()
                    break
    slow = []
    for i in sorted(results):
        _, R, err, dt = results[i]
        if err:
            errors.append((tasks[i], err))
            continue
        slow.append((dt, i))
        total.merge(R)
    slow.sort(reverse=True)
    total.counters['_slowest_task_s'] = int(slow[0][0]) if slow else 0
    return total, errors
