"""C13 — bonding descriptors are separated from fragment text exactly.

Token-level transition system over fragment texts (mc/gen/fragtext.py); every
complete text within the bound goes through the real
strip_bonding_descriptors and is compared with the reference separation."""
from ..core import Explorer, Verdict, bad
from ..gen import fragtext as F

ID = 'C13'
RULE = ('States = token prefixes of fragment texts (atoms incl. two-letter / bracket / aromatic / coarse nodes, bonds, '
        'branches, ring closures with and without ring bond symbol, descriptors with optional order symbol after any atom, '
        'before or after its ring digits, after a closed branch, leading descriptors, annotations in bracket atoms); every '
        'complete text within the bound is given to strip_bonding_descriptors and compared with the reference: clean text, '
        'descriptor list per atom index (in written order), annotation dict per atom. Non-trivial = at least one descriptor '
        'or annotation and at least 2 atoms.')
ASSUMPTIONS = [
    'a descriptor belongs to the atom it was written after; after ")" that is the branch anchor; a leading descriptor belongs to atom 0',
    'an order symbol directly in front of a descriptor (behind a leading descriptor) is that descriptor\'s order and is not part of the clean text',
    'annotation semantics (R-annot, fragment level): first positional = weight (float), x = chiral, other keys verbatim; '
    'un-annotated bracket atoms may report the default weight 1.0',
    'E/Z slash marks are outside this alphabet (C15)',
]
EXPLANATION = 'bounded-exhaustive enumeration of fragment texts executed on the real tokenizer'

ANNOT = {
    'w05': ('0.5', {'weight': 0.5}),
    'wk': ('w=2', {'weight': 2.0}),
    'xR': ('x=R', {'weight': 1.0, 'chiral': 'R'}),
    'wx': ('0.25;S', {'weight': 0.25, 'chiral': 'S'}),
    'free': ('k=ab', {'weight': 1.0, 'k': 'ab'}),
    'mix': ('p=s;w=1e-1', {'weight': 0.1, 'p': 's'}),
}
ANNOT_SEM = {k: v[1] for k, v in ANNOT.items()}


def A(text):
    return (text, text, '')


def AN(el, key, pre='', post=''):
    return ('[%s%s%s;%s]' % (pre, el, post, ANNOT[key][0]), '[%s%s%s]' % (pre, el, post), key)


SMI = [A('C'), A('O'), A('Cl'), A('c'), A('[NH3+]')]
KINDS = [('$', ''), ('>', 'a'), ('<', ''), ('!', '1A')]


def spaces(tier, seed):
    sp = []
    q = tier == 'quick'
    sp.append(('core3', F.FBound(atoms=[A('C'), A('Cl'), A('[O-]'), A('n')], bonds=('=',), descs=[('$', ''), ('>', 'a')],
                                 dsyms=(None, '='), max_atoms=3, max_descs=2 if q else 3, max_depth=2, max_rings=1,
                                 ring_styles=('d',), max_lead=1, max_annot=0, max_bonds=2), 4))
    sp.append(('core4', F.FBound(atoms=[A('C'), A('Cl')], bonds=('=',), descs=[('$', ''), ('>', 'a')], dsyms=(None, '='),
                                 max_atoms=4, max_descs=2, max_depth=1 if q else 2, max_rings=1, ring_styles=('d',), max_lead=1,
                                 max_annot=0, max_bonds=1), 4))
    sp.append(('kinds', F.FBound(atoms=[A('C'), A('Br')], bonds=('#',),
                                 descs=[(k, l) for k in '$><!' for l in ('', 'a', '1A')], dsyms=(None, '=', '#'),
                                 max_atoms=2 if q else 3, max_descs=2, max_depth=1, max_rings=0, max_lead=2, max_annot=0,
                                 max_bonds=1), 3))
    sp.append(('rings', F.FBound(atoms=[A('C'), A('c')], bonds=(), descs=[('$', ''), ('<', 'b')], dsyms=(None, '=', ':'),
                                 max_atoms=3, max_descs=2, max_depth=1, max_rings=1, ring_styles=('d', 'p', 'pp'),
                                 ring_syms=(None, '='), max_lead=1, max_annot=0), 4))
    sp.append(('rings2', F.FBound(atoms=[A('C')], bonds=(), descs=[('$', '')], dsyms=(None, '='), max_atoms=4,
                                  max_descs=1 if q else 2, max_depth=1, max_rings=2, ring_styles=('d', 'p'),
                                  ring_syms=(None,) if q else (None, '='), max_lead=0, max_annot=0), 4))
    sp.append(('annot', F.FBound(atoms=[A('C'), A('[CH2]'), AN('C', 'w05'), AN('O', 'wk'), AN('C', 'xR', post='H'),
                                        AN('C', 'wx', pre='13'), AN('H', 'free'), AN('N', 'mix')],
                                 bonds=('=',), descs=[('$', ''), ('!', 'x')], dsyms=(None, '='), max_atoms=3,
                                 max_descs=1 if q else 2, max_depth=1, max_rings=1, ring_styles=('d',), max_lead=1, max_annot=2,
                                 max_bonds=1), 3))
    sp.append(('coarse', F.FBound(atoms=[A('[#A]'), A('[#OT1]'), AN('#B', 'w05'), AN('#C2', 'free')], bonds=('=',),
                                  descs=[('$', ''), ('>', '1')], dsyms=(None, '='), max_atoms=3, max_descs=2,
                                  max_depth=1 if q else 2, max_rings=1, ring_styles=('d', 'p'), max_lead=1, max_annot=1,
                                  max_bonds=1, bond_after_open=False), 4))
    sp.append(('coarse-mult', F.FBound(atoms=[A('[#A]'), A('[#B]')], bonds=('=',), descs=[('$', '')], dsyms=(None, '='),
                                       max_atoms=3, max_descs=2, max_depth=1, max_rings=0, max_lead=1, max_annot=0,
                                       mults=(1, 2, 3), max_bonds=1, bond_after_open=False), 3))
    sp.append(('zero-order', F.FBound(atoms=[A('C'), A('O')], bonds=('.',), descs=[('$', ''), ('>', 'z')], dsyms=(None, '.', '='),
                                      max_atoms=3, max_descs=2, max_depth=1, max_rings=0, max_lead=1, max_annot=0, max_bonds=1), 3))
    # seed slice: 5 atoms over a seed-chosen atom pair / descriptor kind, all positions
    pool = [A('C'), A('N'), A('S'), A('F'), A('Br'), A('[Na+]'), A('n'), A('[nH]')]
    a1, a2 = pool[seed % 8], pool[(seed // 8 + 3) % 8]
    kind = KINDS[seed % 4]
    sp.append(('seed-slice', F.FBound(atoms=[a1, a2] if a1 != a2 else [a1, A('O')], bonds=('=',), descs=[kind], dsyms=(None, '#'),
                                      max_atoms=5, max_descs=1 if q else 2, max_depth=1, max_rings=1, ring_styles=('d',),
                                      max_lead=1, max_annot=0, max_bonds=1), 4))
    return sp


def roots(B, k):
    Bk = F.FBound.from_json(B.to_json())
    Bk.max_tokens = k
    ex = Explorer(dedup=False)
    return [s for s in ex.run(F.INIT, lambda s: F.succ(s, Bk), lambda s: len(s[0]) == k)]


def plan(tier, seed):
    tasks = []
    for name, B, k in spaces(tier, seed):
        bj = B.to_json()
        tasks.append({'space': name, 'bound': bj, 'root': None, 'k': k})
        for r in roots(B, k):
            tasks.append({'space': name, 'bound': bj, 'root': r, 'k': k})
    return tasks


def run_task(task, R):
    B = F.FBound.from_json(task['bound'])
    ex = Explorer(dedup=False)
    if task['root'] is None:
        B.max_tokens = task['k'] - 1
        init = F.INIT
    else:
        init = task['root']
    for st in ex.run(init, lambda s: F.succ(s, B), F.complete):
        inp = {'text': F.ser(st[0]), 'tokens': st[0]}
        R.record(inp, evaluate(inp))
    R.add_explorer(ex)


def evaluate(inp):
    from cgsmiles.read_fragments import strip_bonding_descriptors
    tokens = [tuple(t) for t in inp['tokens']]
    clean, descs, attrs = F.reference(tokens, ANNOT_SEM)
    natoms = sum(1 for t in tokens if t[0] == 'a')
    nontrivial = natoms >= 2 and bool(descs or attrs)
    expected = {'clean': clean, 'descriptors': {str(k): v for k, v in descs.items()},
                'annotations': {str(k): v for k, v in attrs.items()}}
    try:
        res = strip_bonding_descriptors(inp['text'])
    except Exception as e:
        return bad('raises:' + type(e).__name__, expected, repr(e)[:200], nontrivial=nontrivial)
    g_clean, g_desc, g_ez, g_attr = res
    g_desc = {k: list(v) for k, v in g_desc.items() if v}
    observed = {'clean': g_clean, 'descriptors': {str(k): v for k, v in g_desc.items()},
                'annotations': {str(k): dict(v) for k, v in g_attr.items()}}
    if g_clean != clean:
        return bad('clean-text', expected, observed, nontrivial=nontrivial)
    if g_desc != descs:
        if sorted(sum(g_desc.values(), [])) == sorted(sum(descs.values(), [])):
            return bad('descriptor-owner', expected, observed, nontrivial=nontrivial)
        return bad('descriptor-value', expected, observed, nontrivial=nontrivial)
    for i, a in attrs.items():
        if dict(g_attr.get(i, {})) != a:
            return bad('annotation', expected, observed, nontrivial=nontrivial)
        if type(g_attr[i].get('weight')) is not float:
            return bad('annotation-type', expected, observed, nontrivial=nontrivial)
    for i, a in g_attr.items():
        if i not in attrs and dict(a) not in ({}, {'weight': 1.0}):
            return bad('annotation-spurious', expected, observed, nontrivial=nontrivial)
    if g_ez:
        return bad('spurious-ez', expected, observed, nontrivial=nontrivial)
    # history: the caller uses up what was returned (descriptors consumed, look-ups that insert keys, an annotation
    # rescaled) and reads the same text again; the second answer must be the first one
    snapshot = (res[0], {k: list(v) for k, v in res[1].items() if v}, dict(res[2]), {k: dict(v) for k, v in res[3].items() if v})
    for v in res[1].values():
        del v[:]
    res[1][997].append('$x1')
    for v in res[3].values():
        v['weight'] = 123.0
    res[3][998]['k'] = 'v'
    again = strip_bonding_descriptors(inp['text'])
    again = (again[0], {k: list(v) for k, v in again[1].items() if v}, dict(again[2]), {k: dict(v) for k, v in again[3].items() if v})
    if again != snapshot:
        return bad('history:second-read-of-the-same-text-differs', expected,
                   {'clean': again[0], 'descriptors': {str(k): v for k, v in again[1].items()},
                    'annotations': {str(k): v for k, v in again[3].items()}}, nontrivial=nontrivial)
    if any(t[0] == 'm' for t in tokens):
        # conformance of the numbering model with the real graph reader: the node that owns a
        # descriptor must carry the name of the node the descriptor was written after
        from cgsmiles import read_cgsmiles
        try:
            g = read_cgsmiles('{' + g_clean + '}')
        except Exception as e:
            return bad('graph-read-raises:' + type(e).__name__, expected, repr(e)[:200], nontrivial=nontrivial)
        own = F.owners(tokens)
        names = {}
        cur_name = None
        stack = []
        for t, o in zip(tokens, own):
            if t[0] == 'a':
                cur_name = t[2][2:-1]
            elif t[0] == '(':
                stack.append(cur_name)
            elif t[0] == ')':
                cur_name = stack.pop()
            elif t[0] == 'd':
                names[o] = cur_name
        for o, nm in names.items():
            if o not in g.nodes or g.nodes[o].get('fragname') != nm:
                return bad('descriptor-owner-vs-graph', expected,
                           {'graph_nodes': dict(g.nodes(data='fragname')), 'owner': o, 'written_after': nm},
                           nontrivial=nontrivial)
    sig = '%d|%s|%s' % (natoms, sorted((k, tuple(v)) for k, v in descs.items()), sorted(attrs))
    return Verdict(nontrivial=nontrivial, outcome=sig)


def sanity(total, tier):
    return ['fewer than 50 distinct outcomes'] if len(total.outcomes) < 50 else []
