"""C09 — every atom of an atomistic result has a complete, standard valence."""
from ..core import Verdict, bad
from ..ref import oracles as O
from . import _resolver as RS

ID = 'C09'
RULE = ('All all-atom results of: base graph x ambiguous/surplus fragment libraries (polymers, rings of identical units, '
        'grafts, charged atoms, explicit and annotated hydrogens, single-hydrogen fragments, shared atoms), the C01 '
        'cut/rendering leaves of the feature molecules (aromatic units split across fragments) and the complete choice '
        'trees of the all-atom sampler configurations of C16. On every result: each non-hydrogen atom within the usual '
        'valence has exactly the R-valence hydrogens, every hydrogen has degree 1 and carries its anchor\'s fragid, fragname '
        'and weight. Non-trivial = result has at least one inter-fragment bond or an unused descriptor.')
ASSUMPTIONS = [
    'R-valence table (mc/gen/molecules.py:VAL); aromatic bonds count 1.5',
    'atoms whose bonds to non-hydrogen atoms already exceed the largest usual valence are outside the clause',
    'elements outside the table (Na, ...) are not judged',
    'a single-hydrogen fragment whose descriptor found no partner stays an isolated atom and is not judged',
]
EXPLANATION = 'valence invariant evaluated on every result of three exhaustive explorations'


def plan(tier, seed):
    from . import c03, c16
    tasks = RS.plan(tier, seed, want=('aa',))
    tasks += [t for t in c03.dedicated_plan(tier, seed) if t['space'] in ('dedicated-feature', 'dedicated-seed-slice')]
    tasks += c16.plan(tier, seed, only_all_atom=True)
    return tasks


def check(coarse, fine, fd, aa, inp):
    if not aa:
        return None
    return O.check_valence(fine) or O.check_h_attrs(fine)


def run_task(task, R):
    if task.get('kind') == 'dedicated':
        from . import c03
        orig = c03.evaluate
        # same enumeration, this module's oracle
        import types
        saved = c03.check
        c03.check = check
        try:
            c03.run_task(task, R)
        finally:
            c03.check = saved
        return
    if task.get('kind') == 'sampler':
        from . import c16
        c16.run_task(task, R, oracle='valence')
        return
    for inp in RS.cases(task, R):
        R.record(inp, evaluate(inp))


def evaluate(inp):
    if inp.get('dedicated'):
        from . import c03
        saved = c03.check
        c03.check = check
        try:
            return c03.evaluate(inp)
        finally:
            c03.check = saved
    if inp.get('kind') == 'sampler':
        from . import c16
        return c16.evaluate(inp, oracle='valence')
    return RS.run_invariant(inp, check)


def sanity(total, tier):
    return ['fewer than 20 distinct outcomes'] if len(total.outcomes) < 20 else []
