"""C10 — shared atoms: the squash operator merges exactly the two marked atoms.

For every molecule / partition of the C01 generator every subset of the cut
bonds (order 1 or aromatic) is converted from "disjoint" to "shared": one end
atom is duplicated into the neighbouring fragment and both copies are marked
[!x]; every choice of the shared end and every order of the fragments in the
base graph is enumerated."""
import itertools
import json
import networkx as nx
from ..core import Explorer, Verdict, bad
from ..gen import molecules as M
from . import c01

ID = 'C10'
RULE = ('Molecules and partitions of the C01 generator (growth-enumerated molecules and feature molecules incl. aromatic '
        'templates); decision tree per partition: which cut bonds (order 1 / aromatic) are expressed by sharing (every non-empty '
        'subset), which end atom is duplicated, descriptor kind of the remaining cuts, order of the fragments in the base '
        'graph (all permutations up to 4 fragments), constructor. Every leaf is resolved on the real resolver; oracle: result is '
        'the model molecule (elements, charges, orders, R-valence hydrogens) and equals the uncut resolution; each shared atom '
        'carries exactly the coarse keys of the fragments sharing it, no other heavy atom has more than one key. Layered strings of the '
        'C06 generator with shared nodes at one and at two consecutive levels: one node fewer per shared pair at each step, result '
        'isomorphic to the disjoint (flattened) description. '
        'Non-trivial = at least one shared pair.')
ASSUMPTIONS = c01.ASSUMPTIONS + [
    'only bonds of order 1 or aromatic bonds can be expressed by sharing an end atom',
]
EXPLANATION = 'bounded-exhaustive derivation exploration of overlapping fragment descriptions on the real resolver'


def shareable(mol, comps):
    owner = {a: i for i, c in enumerate(comps) for a in c}
    cuts = [(i, a, b, o) for i, (a, b, o) in enumerate(mol['bonds']) if owner[a] != owner[b]]
    return cuts, owner


def build(inp):
    """returns (base graph, fragment string, expected key sets per shared original atom)"""
    mol = inp['mol']
    comps = [list(c) for c in inp['comps']]
    cuts, owner = shareable(mol, comps)
    shared = {tuple(x) for x in inp['shared']}       # (cut index within cuts, end) end in 0,1 = which end is duplicated
    atoms = [list(a) for a in mol['atoms']]
    bonds = []
    cutbonds = {(a, b) for _, a, b, _ in cuts}
    for a, b, o in mol['bonds']:
        if (a, b) not in cutbonds:
            bonds.append([a, b, o])
    descr = {}
    cnt = {}
    expect_keys = {}
    lab = 0
    kinds = inp['kinds']
    for ci, (bi, a, b, o) in enumerate(cuts):
        L = M.LABELS[lab]
        lab += 1
        key = (min(owner[a], owner[b]), max(owner[a], owner[b]))
        cnt[key] = cnt.get(key, 0) + 1
        sh = [e for (c, e) in shared if c == ci]
        if sh:
            end = sh[0]
            keep, dup = (a, b) if end == 1 else (b, a)      # dup is duplicated into keep's fragment
            new = len(atoms)
            atoms.append(list(mol['atoms'][dup]))
            if dup in mol.get('arom_h', ()):
                mol = dict(mol, arom_h=list(mol['arom_h']) + [new])
            bonds.append([keep, new, o])
            comps[owner[keep]].append(new)
            descr.setdefault(new, []).append(('!' + L, 1))
            descr.setdefault(dup, []).append(('!' + L, 1))
            expect_keys.setdefault(dup, {owner[dup]}).add(owner[keep])
        else:
            kind = kinds[ci % len(kinds)]
            oo = 1 if o == 1.5 else o
            ta, tb = (('$' + L, '$' + L) if kind == '$' else ('>' + L, '<' + L))
            descr.setdefault(a, []).append((ta, oo))
            descr.setdefault(b, []).append((tb, oo))
    mol2 = {'atoms': atoms, 'bonds': bonds}
    if mol.get('arom_h'):
        # the duplicate of a pyrrole-type nitrogen is written with its hydrogen as well
        mol2['arom_h'] = list(mol['arom_h'])
    frags = []
    for i, c in enumerate(comps):
        frags.append('#F%d=%s' % (i, M.render_fragment(mol2, c, descr, inp['starts'][i], descr_pos=inp.get('descr_pos', 'after'))))
    B = M.base_graph(len(comps), cnt, inp['order'])
    return B, '{' + ','.join(frags) + '}', expect_keys


def plan(tier, seed):
    q = tier == 'quick'
    tasks = []
    fams = [('grow3-CNO', c01.ELEMS_3, 3), ('grow4-CO', (('C', 0), ('O', 0)), 4)] if q else \
        [('grow4-CNOCl', c01.ELEMS_4, 4), ('grow5-CO', (('C', 0), ('O', 0)), 5)]
    for name, elems, n in fams:
        mols, ex = c01.enumerate_molecules(elems, n)
        for i in range(0, len(mols), 8):
            tasks.append({'space': name, 'mols': mols[i:i + 8], 'max_frag': 3 if (n >= 5 or (n == 4 and q)) else 4, 'level': 'full' if n <= 3 else 'lite',
                          'pre': (ex.states, ex.transitions) if i == 0 else (0, 0)})
    for nm in sorted(M.FEATURE):
        mol = M.FEATURE[nm]
        if len(mol['atoms']) > (8 if q else 10):
            continue
        if mol.get('arom_h'):
            continue            # cuts next to a written [nH] are decided and recorded under C01 (C01-K1)
        parts = [p for p in M.partitions(mol, max_frag=3 if q else 4) if len(p) >= 2]
        for i in range(0, len(parts), 5):
            tasks.append({'space': 'feature', 'mols': [mol], 'name': nm, 'parts': parts[i:i + 5], 'level': 'lite', 'pre': (0, 0)})
    # star centres: one atom shared with every neighbour fragment (3 and 4 fragments)
    for nm in ('chloroform-like', 'tmao'):
        mol = M.FEATURE[nm]
        parts = [p for p in M.partitions(mol, max_frag=5) if len(p) >= 4]
        for i in range(0, len(parts), 1):
            tasks.append({'space': 'stars', 'mols': [mol], 'name': nm, 'parts': parts[i:i + 1], 'level': 'full' if (len(parts[i]) <= 4 or not q) else 'lite', 'pre': (0, 0)})
    # shared nodes at one and at two consecutive levels of a layered string (coarse bottoms of the C06 generator)
    from . import c06
    for t in c06.plan(tier, seed, for_invariants=True):
        if t.get('bottom') == 'coarse':
            t = dict(t)
            t['space'] = 'layered-shared'
            t['kind'] = 'layered-shared'
            tasks.append(t)
    names = sorted(M.SLICE)
    nm = names[seed % len(names)]
    parts = [p for p in M.partitions(M.SLICE[nm], max_frag=3) if len(p) >= 2]
    for i in range(0, len(parts), 6):
        tasks.append({'space': 'seed-slice', 'mols': [M.SLICE[nm]], 'name': nm, 'parts': parts[i:i + 6], 'level': 'lite2', 'pre': (0, 0)})
    return tasks


def leaves(mol, comps, level):
    cuts, owner = shareable(mol, comps)
    can = [ci for ci, (bi, a, b, o) in enumerate(cuts) if o in (1, 1.5)]
    k = len(comps)
    subsets = []
    for r in range(1, len(can) + 1):
        for sub in itertools.combinations(can, r):
            if level == 'full':
                for ends in itertools.product((0, 1), repeat=r):
                    subsets.append(tuple(zip(sub, ends)))
            else:
                subsets.append(tuple((c, 1) for c in sub))
                subsets.append(tuple((c, (0 if j % 2 else 1)) for j, c in enumerate(sub)))
    subsets = sorted(set(subsets))
    if level == 'lite2':
        subsets = subsets[:12]
    orders = list(itertools.permutations(range(k))) if (k <= 4 and level != 'lite2') else c01.orders_for(k, 'lite')
    if level == 'lite' and k == 4:
        orders = orders[::5]
    levels = [subsets, [('$',), ('>',)] if level != 'lite2' else [('$',)], orders,
              ['graph', 'string'] if level == 'full' else ['string']]

    def succ(prefix):
        if len(prefix) == len(levels):
            return []
        return [prefix + (o,) for o in levels[len(prefix)]]
    return succ, (lambda p: len(p) == len(levels))


def run_task(task, R):
    if task.get('kind') == 'layered-shared':
        from . import c06
        for inp in c06.cases(task, R):
            if 'share' not in inp['variant']:
                continue
            inp = dict(inp, kind='layered-shared')
            R.record(inp, evaluate(inp))
        return
    ex_total = Explorer(dedup=False)
    ex_total.states += task['pre'][0]
    ex_total.transitions += task['pre'][1]
    for mol in task['mols']:
        parts = task.get('parts') or [p for p in M.partitions(mol, max_frag=task.get('max_frag')) if len(p) >= 2]
        for comps in parts:
            comps = tuple(tuple(c) for c in comps)
            succ, term = leaves(mol, comps, task['level'])
            ex = Explorer(dedup=False)
            for leaf in ex.run((), succ, term):
                inp = {'mol': mol, 'comps': comps, 'shared': leaf[0], 'kinds': leaf[1], 'order': leaf[2],
                       'starts': [c[0] for c in comps], 'via': leaf[3]}
                R.record(inp, evaluate(inp))
            ex_total.states += ex.states
            ex_total.transitions += ex.transitions
    R.add_explorer(ex_total)


def evaluate_layered(inp):
    """overlapping description at intermediate levels == the flattened (disjoint) description; one node fewer per
    shared pair than the fragments of that level contain together"""
    from cgsmiles import MoleculeResolver, read_cgsmiles
    sh = inp['variant']['share']
    nshare = 1 if isinstance(sh[0], int) else len(sh)
    try:
        flat = read_cgsmiles(inp['flat'])
    except Exception as e:
        return Verdict(skip=True, outcome='flattened-string-not-readable')
    try:
        r = MoleculeResolver.from_string(inp['string'], last_all_atom=False)
        steps = list(r.resolve_iter())
    except Exception as e:
        return bad('layered:raises:' + type(e).__name__, None, {'string': inp['string'], 'error': repr(e)[:160]})
    merged = 0
    for i, (coarse, fine) in enumerate(steps):
        total = sum(len(r.fragment_dicts[i][d['fragname']]) for _, d in coarse.nodes(data=True))
        two = [n for n, d in fine.nodes(data=True) if len(set(d.get('fragid', []))) > 1]
        if total - len(fine) != len(two):
            return bad('layered:node-count', None, {'string': inp['string'], 'step': i, 'fragment_nodes': total, 'fine_nodes': len(fine),
                                                    'nodes_with_two_owners': len(two)})
        merged += len(two)
    if merged != nshare:
        return bad('layered:shared-atom-membership', nshare, {'string': inp['string'], 'nodes_with_two_owners': merged})
    final = steps[-1][1]
    ok = nx.is_isomorphic(final, flat, node_match=lambda a, b: a.get('atomname') == b.get('fragname'),
                          edge_match=lambda a, b: a.get('order') == b.get('order'))
    if not ok:
        return bad('layered:differs-from-disjoint', {'flat': inp['flat']}, {'string': inp['string'], 'n': len(final), 'edges': len(final.edges)})
    return Verdict(nontrivial=True, outcome='layered/%d/%d/%s' % (len(steps), nshare, inp['groups']))


def evaluate(inp):
    if inp.get('kind') == 'layered-shared':
        return evaluate_layered(inp)
    from cgsmiles import MoleculeResolver
    mol = inp['mol']
    ref = c01.reference(mol)
    if ref is None:
        return Verdict(skip=True, outcome='uncut-molecule-not-resolvable')
    aromatic = any(a[2] for a in mol['atoms'])
    strict = aromatic or not M.has_conjugated_ring(mol)
    if M.compare_with_model(mol, ref, strict_orders=strict) is not None:
        return Verdict(skip=True, outcome='uncut-molecule-differs-from-model')
    B, fragstr, expect_keys = build(inp)
    nshared = len(inp['shared'])
    try:
        if inp['via'] == 'string':
            s, dfs_order = M.base_string(B)
            if s is None:
                return Verdict(skip=True, outcome='base-graph-not-writable')
            text = s + '.' + fragstr
            cg, aa = MoleculeResolver.from_string(text).resolve_all()
        else:
            text = 'graph%s+%s' % (sorted(B.edges(data='order')), fragstr)
            cg, aa = MoleculeResolver.from_graph(fragstr, B).resolve_all()
    except SyntaxError as e:
        if 'Likely you are writing an aromatic molecule' in str(e) and False:
            return Verdict(skip=True, outcome='pysmiles-refuses-to-kekulise')
        return bad('raises:SyntaxError', None, {'string': fragstr, 'error': repr(e)[:160]})
    except Exception as e:
        return bad('raises:' + type(e).__name__, None, {'string': fragstr, 'order': inp['order'], 'error': repr(e)[:160]})
    cls = M.compare_with_model(mol, aa, strict_orders=strict)
    if cls is not None:
        H = M.heavy_subgraph(aa)
        return bad('model:' + cls, {'mol': mol}, {'string': text, 'heavy_atoms': len(H), 'expected': len(mol['atoms'])})
    if not M.same_molecule(aa, ref):
        return bad('differs-from-uncut', None, {'string': text})
    # membership of merged atoms
    posn = {f: i for i, f in enumerate(inp['order'])}
    if inp['via'] == 'string':
        # nodes of a string are numbered in order of appearance (DFS order of the little writer)
        posn = {f: dfs_order.index(i) for f, i in posn.items()}
    want = sorted(sorted(posn[f] for f in ks) for ks in expect_keys.values())
    got = sorted(sorted(set(d['fragid'])) for n, d in aa.nodes(data=True) if d.get('element') != 'H' and len(d.get('fragid', [])) > 1)
    if want != got:
        return bad('shared-atom-membership', want, {'got': got, 'string': text})
    return Verdict(nontrivial=nshared > 0, outcome='%d/%d/%d' % (len(mol['atoms']), len(inp['comps']), nshared))


def sanity(total, tier):
    return ['fewer than 15 distinct outcomes'] if len(total.outcomes) < 15 else []
