"""C08 — fragment definitions and complete strings round-trip through the writer."""
import itertools
import networkx as nx
from ..core import Explorer, Verdict, bad
from ..gen import fragtext as F
from ..gen import basefrag as BF
from ..gen import grammar as G
from . import c13
from . import _resolver as RS

ID = 'C08'
RULE = ('(1) Fragment texts from the C13 token-level generator (atomistic: elements, two-letter elements, charged bracket atoms, '
        'bond orders 1-3, rings, an aromatic ring unit; coarse: named nodes, rings, bond orders) with 0-3 descriptors per atom in '
        'every order, explicit hydrogen atoms, all four kinds, labels, descriptor orders 0-3, leading descriptors; every text the reader accepts is read, '
        'written with write_cgsmiles_fragments and read again: same names, graphs isomorphic with element / node name, charge, '
        'aromaticity, bond order and the ordered descriptor list per atom. Sets of two fragments check the separators. '
        '(2) Complete strings with uniquely labelled descriptor pairs (C01 cut / rendering leaves, C06 multi-level strings) are written with '
        'write_cgsmiles from an unresolved resolver\'s inputs and resolved again; the molecule must equal the original resolution. '
        'Non-trivial = at least one descriptor.')
ASSUMPTIONS = [
    'hydrogen counts, stereo marks and annotations are not part of the statement and are not compared',
    'texts the reader rejects are outside the domain (counted)',
]
EXPLANATION = 'bounded-exhaustive enumeration of fragment sets / complete strings through the real writer and reader'

A = c13.A


def spaces(tier, seed):
    q = tier == 'quick'
    sp = []
    sp.append(('aa-frag', F.FBound(atoms=[A('C'), A('O'), A('Cl'), A('[NH3+]')], bonds=('=',), descs=[('$', ''), ('>', 'a')],
                                   dsyms=(None, '='), max_atoms=3 if not q else 2, max_descs=2 if q else 3, max_depth=1, max_rings=1,
                                   ring_styles=('d',), max_lead=1, max_annot=0, max_bonds=1), 3, True))
    sp.append(('aa-frag3', F.FBound(atoms=[A('C'), A('O')], bonds=('=',), descs=[('$', '')],
                                    dsyms=(None, '='), max_atoms=3, max_descs=2, max_depth=1, max_rings=1,
                                    ring_styles=('d',), max_lead=1, max_annot=0, max_bonds=1), 3, True))
    sp.append(('aa-kinds', F.FBound(atoms=[A('C'), A('N')], bonds=('#',), descs=[(k, l) for k in '$><!' for l in ('', '1A')],
                                    dsyms=(None, '=', '#', '.'), max_atoms=2, max_descs=2 if q else 3, max_descs_per_atom=3,
                                    max_depth=0, max_rings=0, max_lead=1, max_annot=0, max_bonds=1), 3, True))
    sp.append(('aa-arom', F.FBound(atoms=[A('c1ccccc1'), A('C'), A('[O-]')], bonds=('-',), descs=[('$', ''), ('!', '')],
                                   dsyms=(None, ':'), max_atoms=3, max_descs=2, max_depth=1, max_rings=0, max_lead=0,
                                   max_annot=0), 3, True))
    # explicit hydrogen atoms are nodes of a fragment like any other atom
    sp.append(('aa-hydrogen', F.FBound(atoms=[A('C'), A('O'), A('[H]'), A('[CH2]')], bonds=(), descs=[('$', '')],
                                       dsyms=(None,), max_atoms=3 if q else 4, max_descs=1 if q else 2, max_depth=1, max_rings=0,
                                       max_lead=1, max_annot=0), 3, True))
    sp.append(('cg-frag', F.FBound(atoms=[A('[#A]'), A('[#B1]')], bonds=('=', '.'), descs=[('$', ''), ('<', 'x')],
                                   dsyms=(None, '='), max_atoms=3, max_descs=2 if q else 3, max_depth=1, max_rings=1,
                                   ring_styles=('d',), max_lead=1, max_annot=0, max_bonds=1, bond_after_open=False), 3, False))
    pool = [A('C'), A('S'), A('F'), A('Br'), A('[Na+]'), A('P')]
    sp.append(('seed-slice', F.FBound(atoms=[pool[seed % 6], pool[(seed // 6 + 1) % 6]], bonds=('=',), descs=[('$', 'z'), ('!', '')],
                                      dsyms=(None, '#'), max_atoms=3, max_descs=2, max_depth=1, max_rings=1, ring_styles=('d',),
                                      max_lead=1, max_annot=0, max_bonds=1), 3, True))
    return sp


def plan(tier, seed):
    tasks = []
    for name, B, k, aa in spaces(tier, seed):
        bj = B.to_json()
        tasks.append({'space': name, 'bound': bj, 'root': None, 'k': k, 'all_atom': aa})
        for r in c13.roots(B, k):
            tasks.append({'space': name, 'bound': bj, 'root': r, 'k': k, 'all_atom': aa})
    # polycyclic fragments (interleaved ring closures): every connected labelled 5-node graph with >= 3 ring edges
    tasks.append({'space': 'cg-polycyclic', 'kind': 'polycyclic', 'n': 5, 'min_edges': 7})
    tasks.append({'space': 'aa-polycyclic', 'kind': 'polycyclic-aa'})
    # complete strings: only descriptions whose resolution does not depend on the numbering of the base graph
    # (uniquely labelled descriptor pairs): the C01 cut/rendering leaves and the C06 layered strings
    from . import c03
    for t in c03.dedicated_plan(tier, seed):
        t = dict(t)
        t['space'] = 'complete-' + t['space']
        t['kind'] = 'complete-dedicated'
        tasks.append(t)
    from . import c06
    for t in c06.plan(tier, seed, for_invariants=True):
        t = dict(t)
        t['space'] = 'complete-layered'
        t['kind2'] = 'complete-layered'
        tasks.append(t)
    return tasks


def run_task(task, R):
    if task.get('kind2') == 'complete-layered':
        from . import c06
        for inp in c06.cases(task, R):
            inp = {'complete': inp['string'], 'all_atom': inp['all_atom']}
            R.record(inp, evaluate(inp))
        return
    if task.get('kind') == 'polycyclic':
        from . import c06
        n = task['n']
        pairs = [(i, j) for i in range(n) for j in range(i + 1, n)]
        ex = Explorer(dedup=False)

        def succ(st):
            idx, edges = st
            if idx == len(pairs):
                return []
            out = [(idx + 1, edges + (pairs[idx],))]
            if len(edges) + (len(pairs) - idx - 1) >= task['min_edges']:
                out.append((idx + 1, edges))
            return out
        for idx, edges in ex.run((0, ()), succ, lambda st: st[0] == len(pairs) and len(st[1]) >= task['min_edges']):
            g = nx.Graph()
            g.add_nodes_from(range(n))
            for k, (a, b) in enumerate(edges):
                g.add_edge(a, b, order=2 if k == 1 else 1)
            if not nx.is_connected(g):
                continue
            names = {i: 'N%d' % i for i in range(n)}
            text = c06.render_coarse(g, list(range(n)), names, {0: [('$a', 1)], n - 1: [('>b', 2), ('$', 1)]})
            inp = {'fragments': {'X': text}, 'all_atom': False}
            R.record(inp, evaluate(inp))
        R.add_explorer(ex)
        return
    if task.get('kind') == 'polycyclic-aa':
        texts = ['[$]C1CCC2C(C1)CCC3C2CCC4C3CCC4[>]', 'C1C2CC3CC1CC(C2)C3[$]', 'C12C3C4C1C5C2C3C45[$]',
                 '[$]C1CC2CCC1C2', 'C1CC2C3CCC(C3)C2C1[<x]', 'c1ccc2c(c1)ccc3ccccc23', '[$]C1=CC2=CC=CC3=C2C(=C1)C=C3[$]',
                 'C1CCC2(CC1)CCC1(CC2)CCCC1[$a]']
        for i, t in enumerate(texts):
            inp = {'fragments': {'X': t}, 'all_atom': True}
            R.record(inp, evaluate(inp))
            inp = {'fragments': {'P%d' % i: t, 'Q': texts[(i + 1) % len(texts)]}, 'all_atom': True}
            R.record(inp, evaluate(inp))
        R.states += len(texts) + 1
        R.transitions += len(texts)
        return
    if task.get('kind') == 'complete-dedicated':
        from . import c01
        from ..gen import molecules as M
        ex_total = Explorer(dedup=False)
        for mol in task['mols']:
            parts = task.get('parts') or M.partitions(mol, max_frag=task.get('max_frag'))
            for comps in parts:
                comps = tuple(tuple(c) for c in comps)
                succ, term, styles = c01.leaves(mol, comps, 'lite2')
                ex = Explorer(dedup=False)
                for leaf in ex.run((), succ, term):
                    k = len(comps)
                    cinp = {'mol': mol, 'comps': comps, 'kinds': leaf[0], 'order': leaf[1], 'starts': leaf[2:2 + k],
                            'style': styles[leaf[2 + k]], 'via': 'string'}
                    if c01.reference(mol) is None:
                        continue
                    B, fragstr = c01.build(cinp)
                    bs, _ = M.base_string(B)
                    if bs is None:
                        continue
                    inp = {'complete': bs + '.' + fragstr, 'all_atom': True}
                    R.record(inp, evaluate(inp))
                ex_total.states += ex.states
                ex_total.transitions += ex.transitions
        R.add_explorer(ex_total)
        return
    B = F.FBound.from_json(task['bound'])
    ex = Explorer(dedup=False)
    if task['root'] is None:
        B.max_tokens = task['k'] - 1
        init = F.INIT
    else:
        init = task['root']
    prev = None
    for st in ex.run(init, lambda s: F.succ(s, B), F.complete):
        text = F.ser(st[0])
        inp = {'fragments': {'X': text}, 'all_atom': task['all_atom']}
        R.record(inp, evaluate(inp))
        if prev is not None and ex.states % 7 == 0:
            inp2 = {'fragments': {'X': prev, 'Yb': text}, 'all_atom': task['all_atom']}
            R.record(inp2, evaluate(inp2))
        prev = text
    R.add_explorer(ex)


def frag_iso(g1, g2, all_atom):
    key = 'element' if all_atom else 'atomname'

    def nm(a, b):
        return (a.get(key) == b.get(key) and a.get('charge', 0) == b.get('charge', 0) and
                bool(a.get('aromatic', False)) == bool(b.get('aromatic', False)) and
                list(a.get('bonding', [])) == list(b.get('bonding', [])))

    def em(a, b):
        return a.get('order', 1) == b.get('order', 1)
    return nx.is_isomorphic(g1, g2, node_match=nm, edge_match=em)


def diagnose(g1, g2, all_atom):
    key = 'element' if all_atom else 'atomname'
    if len(g1) != len(g2):
        return 'node-count'
    if sorted(str(d.get(key)) for _, d in g1.nodes(data=True)) != sorted(str(d.get(key)) for _, d in g2.nodes(data=True)):
        return 'names' if not all_atom else 'elements'
    if sorted(d.get('charge', 0) for _, d in g1.nodes(data=True)) != sorted(d.get('charge', 0) for _, d in g2.nodes(data=True)):
        return 'charges'
    b1 = sorted(sorted(d.get('bonding', [])) for _, d in g1.nodes(data=True))
    b2 = sorted(sorted(d.get('bonding', [])) for _, d in g2.nodes(data=True))
    if sorted(sum(b1, [])) != sorted(sum(b2, [])):
        return 'descriptors-lost-or-changed'
    if b1 != b2:
        return 'descriptors-on-other-atom'
    if sorted(d.get('order', 1) for _, _, d in g1.edges(data=True)) != sorted(d.get('order', 1) for _, _, d in g2.edges(data=True)):
        return 'bond-orders'
    if sorted(bool(d.get('aromatic')) for _, d in g1.nodes(data=True)) != sorted(bool(d.get('aromatic')) for _, d in g2.nodes(data=True)):
        return 'aromaticity'
    return 'descriptor-order-or-wiring'


def evaluate(inp):
    from cgsmiles.read_fragments import read_fragments
    from cgsmiles.write_cgsmiles import write_cgsmiles_fragments, write_cgsmiles
    from cgsmiles import MoleculeResolver
    aa = inp['all_atom']
    if 'complete' in inp:
        s = inp['complete']
        try:
            c0, f0 = MoleculeResolver.from_string(s, last_all_atom=aa).resolve_all()
        except Exception as e:
            return Verdict(skip=True, outcome='original-string-not-resolvable:' + type(e).__name__)
        try:
            r = MoleculeResolver.from_string(s, last_all_atom=aa)
            s2 = write_cgsmiles(r.molecule, r.fragment_dicts, last_all_atom=aa)
        except Exception as e:
            return bad('complete:write-raises:' + type(e).__name__, None, {'string': s, 'error': repr(e)[:150]})
        try:
            c1, f1 = MoleculeResolver.from_string(s2, last_all_atom=aa).resolve_all()
        except Exception as e:
            return bad('complete:reresolve-raises:' + type(e).__name__, None, {'string': s, 'written': s2, 'error': repr(e)[:150]})
        key = 'element' if aa else 'atomname'
        ok = nx.is_isomorphic(f0, f1, node_match=lambda a, b: a.get(key) == b.get(key) and a.get('charge', 0) == b.get('charge', 0),
                              edge_match=lambda a, b: a.get('order', 1) == b.get('order', 1))
        if not ok:
            return bad('complete:molecule-differs', None, {'string': s, 'written': s2, 'n0': len(f0), 'n1': len(f1)})
        return Verdict(nontrivial=len(c0) >= 2, outcome='complete:%d/%d' % (len(c0), len(f0)))
    text = '{' + ','.join('#%s=%s' % kv for kv in inp['fragments'].items()) + '}'
    try:
        F0 = read_fragments(text, all_atom=aa)
    except Exception as e:
        return Verdict(skip=True, outcome='reader-rejects:' + type(e).__name__)
    nd = sum(len(d.get('bonding', [])) for g in F0.values() for _, d in g.nodes(data=True))
    nontrivial = nd > 0
    try:
        W = write_cgsmiles_fragments(F0, smiles_format=aa)
    except Exception as e:
        return bad('write-raises:' + type(e).__name__, None, {'text': text, 'error': repr(e)[:150]}, nontrivial=nontrivial)
    try:
        F1 = read_fragments(W, all_atom=aa)
    except Exception as e:
        return bad('reread-raises:' + type(e).__name__, None, {'text': text, 'written': W, 'error': repr(e)[:150]}, nontrivial=nontrivial)
    if list(F0) != list(F1):
        return bad('fragment-names', list(F0), {'text': text, 'written': W, 'names': list(F1)}, nontrivial=nontrivial)
    for name in F0:
        if not frag_iso(F0[name], F1[name], aa):
            return bad(diagnose(F0[name], F1[name], aa), None, {'text': text, 'written': W}, nontrivial=nontrivial)
    return Verdict(nontrivial=nontrivial, outcome='%d/%d' % (sum(len(g) for g in F0.values()), nd))


def sanity(total, tier):
    return ['fewer than 10 distinct outcomes'] if len(total.outcomes) < 10 else []
