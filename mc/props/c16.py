"""C16 — sampled polymers are well-formed molecules built from the given fragments.

Choice-tree exploration: the sampler's only nondeterminism (stdlib random) is
replaced by a controlled chooser and every answer sequence the RNG could give
is explored by stateless replay (depth-first) for each configuration."""
import collections
import json
import networkx as nx
from ..core import Verdict, bad
from .. import own
from ..gen.molecules import VAL, ref_hcount
from ..ref import oracles as O

ID = 'C16'
RULE = ('Configurations (fragment sets of 1-4 fragments with 1-4 descriptors, mixed kinds / labels / orders, coarse and '
        'all-atom; reactivity tables incl. zeros and conditional tables; terminal sets; fixed / free start; target weights '
        'for 1-3 growth steps). For each configuration the complete choice tree of sample() under the controlled RNG is '
        'explored (one path = one complete real execution; every alternative with non-zero weight at every RNG call). '
        'Every returned molecule is judged: connected tree of fragment copies, complementary descriptors of equal order, '
        'no descriptor used twice, copies isomorphic to templates, canonical numbering, valence for all-atom. '
        'Non-trivial = at least one growth step. Paths that raise (no site / no partner left) are dead ends and counted.')
ASSUMPTIONS = [
    'the sampler draws only through random.seed / random.choice / random.choices of the stdlib module bound in cgsmiles.sample; '
    'a sample() with >=1 growth step that met no choice point is a harness error',
    'random.choices never returns an item of weight 0 (true for finite positive totals; rounding at the upper edge is not modelled)',
    'conformance: for real seeds the recorded answer sequence is replayed under the chooser and must give the identical molecule',
]
EXPLANATION = 'stateless exhaustive exploration of the sampler\'s RNG choice tree on the real implementation'

CONFIGS = collections.OrderedDict()


def cfg(name, frag, react, all_atom=False, masses=None, freact=None, terminals=(), start=None, targets=(1, 2), quick=True):
    CONFIGS[name] = dict(name=name, frag=frag, react=react, all_atom=all_atom, masses=masses, freact=freact or {},
                         terminals=list(terminals), start=start, targets=list(targets), quick=quick)


cfg('cg-mixed', '{#A=[$][#X][#Y][$],#B=[$][#Z][>],#C=[<][#W][$]}', {'$': 1, '>': 1, '<': 0.5},
    masses={'A': 1, 'B': 1, 'C': 1}, targets=(1, 2, 3))
cfg('cg-zeros', '{#A=[$][#X][#Y][$],#B=[$][#Z][>],#C=[<][#W][$]}', {'$': 0.5, '>': 0, '<': 0.5},
    masses={'A': 1, 'B': 1, 'C': 1}, targets=(2, 3), start='B')
cfg('cg-cond', '{#A=[$a][#X][$b],#B=[$c][#Y][$d]}', {'$a': 0.5, '$b': 0, '$c': 0.5, '$d': 0.0},
    masses={'A': 2, 'B': 3}, targets=(2, 5, 7),
    freact={'$a': {'$a': 0., '$c': 0., '$b': 0.7, '$d': 0.3}, '$b': {'$a': 0.7, '$c': 0.3, '$b': 0.0, '$d': 0.0},
            '$c': {'$a': 0., '$c': 0., '$b': 0.3, '$d': 0.7}, '$d': {'$a': 0.3, '$c': 0.7, '$b': 0.0, '$d': 0.0}})
cfg('cg-term', '{#M=[<][#A][#B][>][$A],#T=[$B][#D]}', {'<': 0.3, '>': 0.3, '$A': 0.4, '$B': 0}, masses={'M': 2, 'T': 1},
    terminals=['$A', '$B'], freact={'$A': {'$A': 0, '$B': 1.0}}, start='M', targets=(2, 4, 5))
cfg('cg-term2', '{#M=[<][#A][#B][>][$A][$B],#OH=[$C][#O],#ME=[$D][#C]}', {'<': 0.2, '>': 0.2, '$A': 0.3, '$B': 0.3, '$C': 0, '$D': 0},
    masses={'M': 2, 'OH': 1, 'ME': 1}, terminals=['$A', '$B', '$C', '$D'], start='M', targets=(2, 3))
cfg('cg-orders', '{#A=[$]=[#X][$],#B=[$]=[#Y]=[$],#C=[>][#Z]=[<]}', {'$1': 1, '$2': 1, '>1': 1, '<2': 1},
    masses={'A': 1, 'B': 1, 'C': 1}, targets=(1, 2))
cfg('cg-labels', '{#A=[>a][#X][<a][>b],#B=[<b][#Y][>a],#C=[<a][#Z]}', {'>a': 1, '<a': 1, '>b': 1, '<b': 1},
    masses={'A': 1, 'B': 1, 'C': 1}, targets=(1, 2, 3))
cfg('cg-digit-labels', '{#A=[>1][#a][#b][<2],#B=[>2][#c][#d][<1],#C=[<1][#e]}', {'>11': 1, '<11': 1, '>21': 1, '<21': 1},
    masses={'A': 1, 'B': 1, 'C': 1}, targets=(1, 2, 3))
cfg('cg-term-cap-only', '{#BB=[>][#B][<][>A],#SC=[<A][#S][>A][$A],#CAP=[$B][#T]}',
    {'<': 0.2, '>': 0.2, '>A': 0.5, '<A': 0.5, '$A': 0.5, '$B': 0.0}, masses={'BB': 2, 'SC': 1, 'CAP': 1},
    terminals=['$B'], freact={'$A': {'$A': 0, '$B': 1.0}}, start='BB', targets=(2, 3))
# a full square conditional table: entries for descriptors that are not complementary to the chosen site must be ignored
cfg('cg-fullmatrix', '{#A=[$][#X][>],#B=[<][#Y][$],#C=[>][#Z][<]}', {'$': 1, '>': 1, '<': 1}, masses={'A': 1, 'B': 1, 'C': 1},
    freact={k: {'$': 1.0, '>': 1.0, '<': 1.0} for k in ('$', '>', '<')}, targets=(1, 2))
cfg('cg-mixed-graphs', '{#A=[$][#X][#Y][$],#B=[$][#Z][>],#C=[<][#W][$]}', {'$': 1, '>': 1, '<': 0.5},
    masses={'A': 1, 'B': 1, 'C': 1}, targets=(1, 2))
CONFIGS['cg-mixed-graphs']['via'] = 'graphs-rev'
cfg('aa-dir-graphs', '{#PEO=[>]COC[<],#PS=[>]CC[<]c1ccccc1}', {'>': 0.5, '<': 0.5}, all_atom=True, targets=(1, 50))
CONFIGS['aa-dir-graphs']['via'] = 'graphs-rev'
cfg('cg-four', '{#A=[$][#X][$],#B=[>][#Y][<],#C=[$][#Z][>],#D=[<][#W]}', {'$': 1, '>': 1, '<': 1},
    masses={'A': 1, 'B': 1, 'C': 1, 'D': 1}, targets=(1, 2), quick=False)
cfg('aa-pe', '{#PE=[$]CC[$],#OH=[$]O}', {'$': 1}, all_atom=True, targets=(1, 30))
cfg('aa-dir', '{#PEO=[>]COC[<],#PS=[>]CC[<]c1ccccc1}', {'>': 0.5, '<': 0.5}, all_atom=True, targets=(1, 50))
cfg('aa-brush', '{#PMA=[>]CC[<]C(=O)OC[>A],#PEG=[<A]COC[>A][$A],#OH=[$B]O}',
    {'<': 0.1, '>': 0.1, '>A': 0.8, '<A': 0.8, '$A': 0.3, '$B': 0.0}, all_atom=True, terminals=['$A', '$B'],
    freact={'$A': {'$A': 0, '$B': 1.0}}, start='PMA', targets=(1, 50))
cfg('aa-masses', '{#PE=[$]CC[$],#VC=[$]C(Cl)C[$]}', {'$': 1}, all_atom=True, masses={'PE': 28.0, 'VC': 62.5}, targets=(1, 60))
cfg('aa-double', '{#A=[$]=CC=[$],#B=[$]CC[$],#N=[$]=N[$]}', {'$1': 1, '$2': 1}, all_atom=True, targets=(1, 30))
cfg('aa-bracketH', '{#PP=[>]C[CH](C)[<],#PE=[>][CH2]C[<]}', {'>': 1, '<': 1}, all_atom=True, targets=(1, 40))
# descriptors on aromatic atoms: the new bond is aromatic, the hetero atom takes no hydrogen
cfg('aa-arom', '{#P=[$]c1ccc([$])cc1,#T=[$]c1sc([$])cc1}', {'$': 1}, all_atom=True, targets=(1, 150))
cfg('aa-charged', '{#A=[>]C[NH2+]C[<],#B=[>]CC([O-])[<]}', {'>': 1, '<': 1}, all_atom=True, targets=(1, 40), quick=False)


def make_sampler(c, seed=1):
    from cgsmiles.sample import MoleculeSampler
    kw = dict(polymer_reactivities=dict(c['react']), all_atom=c['all_atom'], seed=seed)
    if c['freact']:
        kw['fragment_reactivities'] = {k: dict(v) for k, v in c['freact'].items()}
    if c['terminals']:
        kw['terminal_bonds'] = list(c['terminals'])
    if c['masses']:
        kw['fragment_masses'] = dict(c['masses'])
    if c.get('via') == 'graphs-rev':
        # the constructor that takes fragment graphs; the graphs list their nodes and edges in reverse order
        # (graphs that come from elsewhere need not be stored in ascending key order)
        import networkx as nx
        from cgsmiles.read_fragments import read_fragments
        lib = {}
        for name, g in read_fragments(c['frag'], all_atom=c['all_atom']).items():
            h = nx.Graph()
            for n in sorted(g.nodes, reverse=True):
                h.add_node(n, **g.nodes[n])
            for a, b, d in sorted(g.edges(data=True), key=lambda e: (e[0], e[1]), reverse=True):
                h.add_edge(b, a, **d)
            lib[name] = h
        return MoleculeSampler(lib, **kw)
    return MoleculeSampler.from_fragment_string(c['frag'], **kw)


def dump(mol):
    nodes = sorted((n, sorted((k, repr(v)) for k, v in d.items())) for n, d in mol.nodes(data=True))
    edges = sorted((min(a, b), max(a, b), sorted((k, repr(v)) for k, v in d.items())) for a, b, d in mol.edges(data=True))
    return json.dumps([nodes, edges])


def run_path(c, target, prefix, chooser):
    """one complete real execution of construct+sample under the chooser"""
    import cgsmiles.sample as S
    S.random = chooser
    chooser.reset(prefix)
    sampler = make_sampler(c)
    err = None
    mol = None
    try:
        mol = sampler.sample(target, start_fragment=c['start'])
    except own.ReplayDivergence:
        raise
    except (IndexError, ValueError, OSError, KeyError, SyntaxError) as e:
        err = type(e).__name__ + ':' + str(e)[:80]
    return sampler, mol, err


def plan(tier, seed, only_all_atom=False):
    tasks = []
    for name, c in CONFIGS.items():
        if tier == 'quick' and not c['quick']:
            continue
        if only_all_atom and not c['all_atom']:
            continue
        # targets that force 1..K growth steps (K-th multiple of the smallest fragment mass)
        if c['masses']:
            mmin = min(c['masses'].values())
        else:
            mmin = min(make_sampler(c).fragment_masses.values())
        K = (5 if tier == 'quick' else 6) if not c['all_atom'] else (3 if tier == 'quick' else 4)
        targets = sorted(set(list(c['targets']) + [round(k * mmin - 0.5 * mmin, 3) for k in range(1, K + 1)]))
        for t in targets:
            tasks.append({'space': 'sampler-' + ('aa' if c['all_atom'] else 'cg'), 'kind': 'sampler', 'config': name,
                          'target': t, 'cap': 60000 if tier == 'quick' else 400000, 'double': 200 if tier == 'quick' else 10 ** 9})
    if not only_all_atom:
        for name, c in CONFIGS.items():
            if tier == 'quick' and not c['quick']:
                continue
            tasks.append({'space': 'history-one-sampler', 'kind': 'history', 'config': name,
                          'target': sorted(c['targets'])[min(1, len(c['targets']) - 1)],
                          'max_paths': 40 if tier == 'quick' else 120})
            tasks.append({'space': 'conformance-real-rng', 'kind': 'conformance', 'config': name,
                          'target': c['targets'][-1], 'seeds': list(range(6 if tier == 'quick' else 40)) + [1000 + seed]})
    return tasks


def template_bonding(sampler, fragname, node):
    return list(sampler.fragment_dict[fragname].nodes[node].get('bonding', []))


def check_molecule(c, sampler, mol, all_atom):
    """C16 oracle on one returned molecule"""
    if len(mol) == 0:
        return 'empty', {}
    if not nx.is_connected(mol):
        return 'not-connected', {}
    keys = sorted(mol.nodes)
    if keys != list(range(len(keys))):
        return 'numbering:keys', {'keys': keys[:20]}
    fr = [mol.nodes[i].get('fragid') for i in keys]
    if any(not isinstance(f, list) or len(f) != 1 for f in fr):
        return 'fragid-format', {'fragids': fr[:20]}
    seq = [f[0] for f in fr]
    if seq != sorted(seq):
        return 'numbering:not-sorted-by-fragid', {'fragids': seq}
    ids = sorted(set(seq))
    if ids != list(range(len(ids))):
        return 'fragid-not-order-of-addition', {'ids': ids}
    inter = [(a, b, d) for a, b, d in mol.edges(data=True) if 'bonding' in d]
    cross = [(a, b) for a, b, d in mol.edges(data=True) if mol.nodes[a]['fragid'] != mol.nodes[b]['fragid']
             and mol.nodes[a].get('element') != 'H' and mol.nodes[b].get('element') != 'H']
    if len(cross) != len(inter):
        return 'inter-fragment-edge-without-descriptors', {}
    if len(inter) != len(ids) - 1:
        return 'not-one-bond-per-added-fragment', {'bonds': len(inter), 'fragments': len(ids)}
    q = nx.Graph()
    q.add_nodes_from(ids)
    for a, b, d in inter:
        q.add_edge(mol.nodes[a]['fragid'][0], mol.nodes[b]['fragid'][0])
    if not nx.is_tree(q):
        return 'fragments-not-a-tree', {}
    # copies of templates: heavy nodes of a fragment in key order correspond to template nodes in order
    used = collections.defaultdict(list)
    frag_nodes = collections.defaultdict(list)
    for i in keys:
        frag_nodes[seq[i]].append(i)
    corr = {}
    for fid, nodes in frag_nodes.items():
        fname = mol.nodes[nodes[0]].get('fragname')
        if fname not in sampler.fragment_dict:
            return 'unknown-fragname', {'fragname': fname}
        tmpl = sampler.fragment_dict[fname]
        heavy = [n for n in nodes if not (all_atom and mol.nodes[n].get('element') == 'H' and 'bonding' not in mol.nodes[n]
                                          and not mol.nodes[n].get('single_h_frag'))]
        tn = list(tmpl.nodes)
        if all_atom:
            heavy = [n for n in nodes if mol.nodes[n].get('element') != 'H'] if any(
                tmpl.nodes[t].get('element') != 'H' for t in tn) else nodes[:len(tn)]
            tn = [t for t in tn if tmpl.nodes[t].get('element') != 'H'] or tn
        if len(heavy) != len(tn):
            return 'copy:size', {'fragment': fid, 'fragname': fname, 'nodes': len(heavy), 'template': len(tn)}
        m = dict(zip(tn, heavy))
        key = 'element' if all_atom else 'atomname'
        for t, n in m.items():
            if mol.nodes[n].get('fragname') != fname:
                return 'copy:fragname', {'node': n}
            tv = tmpl.nodes[t].get(key)
            nv = mol.nodes[n].get(key)
            if all_atom:
                if tv != nv:
                    return 'copy:element', {'node': n}
            elif tv != nv:
                return 'copy:name', {'node': n, 'template': tv, 'fine': nv}
            corr[n] = (fname, t)
        for a, b, ed in tmpl.edges(data=True):
            if a in m and b in m:
                if not mol.has_edge(m[a], m[b]):
                    return 'copy:edge-missing', {'fragment': fid}
                fo = mol.edges[m[a], m[b]].get('order', 1)
                ar = bool(mol.nodes[m[a]].get('aromatic')) and bool(mol.nodes[m[b]].get('aromatic'))
                # written as aromatic in the template: returned as 1.5 or, where pysmiles kekulises the ring, as 1 / 2
                ar_t = bool(tmpl.nodes[a].get('aromatic')) and bool(tmpl.nodes[b].get('aromatic'))
                if not O._orders_match(ed.get('order', 1), fo, ar_t, ar):
                    return 'copy:edge-order', {'fragment': fid}
        inv = {n: t for t, n in m.items()}
        for n in inv:
            for nb in mol[n]:
                if nb in inv and not tmpl.has_edge(inv[n], inv[nb]):
                    return 'copy:extra-edge', {'fragment': fid}
    # bonds
    term = set(sampler.terminal_bonds)
    withdrawn = collections.defaultdict(lambda: None)
    for a, b, d in inter:
        x, y = d['bonding']
        # site = descriptor on the older fragment
        if mol.nodes[a]['fragid'][0] > mol.nodes[b]['fragid'][0]:
            a, b = b, a
        if x[-1] != y[-1]:
            return 'bond:order-digits-differ', {'bonding': (x, y)}
        if x[0] == '$':
            if y[0] != '$':
                return 'bond:not-complementary', {'bonding': (x, y)}
        elif {x[0], y[0]} == {'<', '>'}:
            if x[1:] != y[1:]:
                return 'bond:labels-differ', {'bonding': (x, y)}
        else:
            return 'bond:not-complementary', {'bonding': (x, y)}
        if d.get('order') != int(x[-1]):
            return 'bond:order', {'bonding': (x, y), 'order': d.get('order')}
        for n, dsc in ((a, x), (b, y)):
            if n not in corr:
                return 'bond:on-completed-atom', {'node': n}
            used[n].append(dsc)
    for n, (fname, t) in corr.items():
        avail = template_bonding(sampler, fname, t)
        for dsc in used.get(n, []):
            if dsc not in avail:
                return 'bond:descriptor-used-twice-or-foreign', {'node': n, 'used': used[n], 'template': template_bonding(sampler, fname, t)}
            avail.remove(dsc)
        left = mol.nodes[n].get('bonding')
        if left is None:
            left = []
        # remaining list = template - used - withdrawn terminal descriptors
        for dsc in left:
            if dsc not in avail:
                return 'remaining-descriptor-not-in-template', {'node': n, 'left': left, 'available': avail}
        rest = list(avail)
        for dsc in left:
            rest.remove(dsc)
        # what disappeared without being used must be explained by the terminal rules (checked in C17)
    if all_atom:
        res = O.check_valence(mol) or O.check_h_attrs_sampler(mol)
        if res:
            return res
    return None


def evaluate(inp, oracle='wellformed'):
    """replay one path (used by the explorer and by --replay)"""
    ch = own.Chooser()
    c = CONFIGS[inp['config']]
    if inp.get('kind') == 'history':
        fresh_s, fresh_m, fresh_e = run_path(c, inp['target'], inp['path'], ch)
        sampler = make_sampler(c)
        try:
            sample_on(sampler, c, inp['target'], inp['first'], ch)
            m2, e2 = sample_on(sampler, c, inp['target'], inp['path'], ch)
        except own.ReplayDivergence as e:
            return bad('history:choice-points-differ-from-fresh-sampler', None, {'config': inp['config'], 'divergence': str(e)})
        if (m2 is None) != (fresh_m is None) or (m2 is not None and dump(m2) != dump(fresh_m)):
            return bad('history:second-sample-differs-from-fresh-sampler', None, {'config': inp['config']})
        return Verdict()
    sampler, mol, err = run_path(c, inp['target'], inp['path'], ch)
    ch2 = own.Chooser()
    s2, m2, e2 = run_path(c, inp['target'], inp['path'], ch2)
    if (mol is None) != (m2 is None) or (mol is not None and dump(mol) != dump(m2)):
        return bad('replay-not-deterministic', None, {'config': inp['config'], 'path': inp['path']})
    return judge(c, inp, sampler, mol, err, ch, oracle)


def judge(c, inp, sampler, mol, err, ch, oracle):
    steps = None
    if err is not None and err.startswith('SyntaxError'):
        # not a dead end of the growth (no site / no partner left): the sampler assembled a molecule from valid
        # fragments and then could not complete it with hydrogens
        return bad('sample-assembled-but-not-completed:SyntaxError', None, {'config': c['name'], 'error': err})
    if err is not None:
        return Verdict(nontrivial=False, outcome='dead-end:' + err.split(':')[0], tags=('dead_end',))
    nfrag = len({tuple(d['fragid']) for _, d in mol.nodes(data=True)})
    nontrivial = nfrag >= 2
    if nfrag >= 2 and not ch.points:
        raise RuntimeError('sample() grew the molecule without meeting a choice point: the RNG is not owned')
    if oracle == 'valence':
        res = (O.check_valence(mol) or O.check_h_attrs_sampler(mol)) if c['all_atom'] else None
    elif oracle == 'wellformed':
        res = check_molecule(c, sampler, mol, c['all_atom'])
    else:
        from . import c17
        res = c17.check_path(c, inp, sampler, mol, ch)
    if res:
        return bad(res[0], None, {'detail': res[1], 'config': inp['config'], 'target': inp['target'], 'path': inp['path'],
                                  'fragments': nfrag}, nontrivial=nontrivial)
    return Verdict(nontrivial=nontrivial, outcome=nx.weisfeiler_lehman_graph_hash(mol, node_attr='element' if c['all_atom'] else 'atomname'))


_POISONED = []      # set once an execution in this worker process was not reproducible


def run_task(task, R, oracle='wellformed'):
    c = CONFIGS[task['config']]
    if _POISONED:
        # something survived an earlier execution in this process (that is what made it non-reproducible); every
        # further call of the library would run on that state, get slower and prove nothing new
        R.record({'kind': 'sampler', 'config': task['config'], 'target': task.get('target'), 'path': []},
                 bad('replay-not-deterministic', None, {'config': task['config'], 'first_seen_in': _POISONED[0]}))
        R.cap('task skipped: an earlier execution in this worker process was not reproducible')
        return
    if task['kind'] == 'conformance':
        return run_conformance(task, R, c)
    if task['kind'] == 'history':
        return run_history(task, R, c)
    ch = own.Chooser()
    npaths = 0

    def run(prefix):
        sampler, mol, err = run_path(c, task['target'], prefix, ch)
        return list(ch.points), list(ch.taken), (sampler, mol, err)
    stats = None
    for taken, (sampler, mol, err), stats in own.explore_choices(run, max_paths=task['cap']):
        inp = {'kind': 'sampler', 'config': task['config'], 'target': task['target'], 'path': taken}
        npaths += 1
        if (npaths == 1 or npaths <= task['double']) and mol is not None:
            # the same schedule must give the same observation before any verdict on it is believed (and before the
            # oracle, whose isomorphism tests are only cheap on the molecules a correct sampler returns)
            points1 = list(ch.points)
            ch2 = own.Chooser()
            s2, m2, e2 = run_path(c, task['target'], taken, ch2)
            if e2 is not None or dump(m2) != dump(mol) or ch2.taken != taken:
                v = bad('replay-not-deterministic', None, {'config': task['config'], 'path': taken})
                R.record(inp, v)
                # executions are not a function of the schedule (something survives from one execution to the next):
                # nothing explored after this point would be believable, stop this tree
                R.cap('config %s target %s: exploration stopped at the first non-reproducible execution' % (task['config'], task['target']))
                _POISONED.append(task['config'])
                stats = None
                break
        v = judge(c, inp, sampler, mol, err, ch, oracle)
        R.record(inp, v)
    if stats:
        R.states += stats['points'] + 1
        R.transitions += stats['transitions']
        sp = R.spaces[R._space]
        sp['states'] += stats['points'] + 1
        sp['transitions'] += stats['transitions']
        if stats['capped']:
            R.cap('config %s target %s: path cap %d reached, tree not exhausted' % (task['config'], task['target'], task['cap']))


def sample_on(sampler, c, target, prefix, chooser):
    import cgsmiles.sample as S
    S.random = chooser
    chooser.reset(prefix)
    try:
        return sampler.sample(target, start_fragment=c['start']), None
    except own.ReplayDivergence:
        raise
    except (IndexError, ValueError, OSError, KeyError, SyntaxError) as e:
        return None, type(e).__name__


def lib_dump(sampler):
    return json.dumps({k: [sorted((n, sorted((a, repr(v)) for a, v in d.items())) for n, d in g.nodes(data=True)),
                           sorted((min(a, b), max(a, b), sorted((k2, repr(v)) for k2, v in d.items())) for a, b, d in g.edges(data=True))]
                       for k, g in sampler.fragment_dict.items()}, sort_keys=True)


def run_history(task, R, c):
    """histories of two sample() calls on ONE sampler object: every ordered pair of explored paths (dead ends
    included); the second call must return what a fresh sampler returns on the same answers, and the fragment
    library must be left untouched"""
    ch = own.Chooser()
    paths = []
    # the default path twice on fresh samplers: if that is not reproducible no history can be judged (and the
    # exploration below would not terminate in reasonable time when executions accumulate state)
    s_a, m_a, e_a = run_path(c, task['target'], [], ch)
    s_b, m_b, e_b = run_path(c, task['target'], [], ch)
    if (m_a is None) != (m_b is None) or (m_a is not None and dump(m_a) != dump(m_b)):
        R.record({'kind': 'sampler', 'config': task['config'], 'target': task['target'], 'path': []},
                 bad('replay-not-deterministic', None, {'config': task['config'], 'path': []}))
        R.cap('history exploration of %s skipped: executions are not reproducible' % task['config'])
        _POISONED.append(task['config'])
        return

    def run(prefix):
        sampler, mol, err = run_path(c, task['target'], prefix, ch)
        return list(ch.points), list(ch.taken), (sampler, mol, err)
    for taken, (sampler, mol, err), stats in own.explore_choices(run, max_paths=task['max_paths']):
        paths.append((taken, None if mol is None else dump(mol), err))
    if stats['capped']:
        R.count('history_path_cap_hit')
    # dead ends first: they are the interesting first calls
    firsts = sorted(paths, key=lambda p: p[1] is not None)[:12]
    n = 0
    for p1 in firsts:
        for p2 in paths:
            sampler = make_sampler(c)
            lib0 = lib_dump(sampler)
            inp = {'kind': 'history', 'config': task['config'], 'target': task['target'], 'first': p1[0], 'path': p2[0]}
            n += 1
            try:
                m1, e1 = sample_on(sampler, c, task['target'], p1[0], ch)
                m2, e2 = sample_on(sampler, c, task['target'], p2[0], ch)
            except own.ReplayDivergence as e:
                # the answers that drive a fresh sampler along this path are not even enabled here: the choice points
                # offered by this sampler depend on what an earlier call (or an earlier sampler) left behind
                R.record(inp, bad('history:choice-points-differ-from-fresh-sampler', None,
                                  {'config': task['config'], 'divergence': str(e)}))
                continue
            if (m2 is None) != (p2[1] is None) or (m2 is not None and dump(m2) != p2[1]):
                R.record(inp, bad('history:second-sample-differs-from-fresh-sampler', None,
                                  {'first_call': 'dead end' if m1 is None else 'returned', 'config': task['config']}))
            elif lib_dump(sampler) != lib0:
                R.record(inp, bad('history:fragment-library-modified', None, {'config': task['config']}))
            else:
                R.record(inp, Verdict(nontrivial=m2 is not None, outcome='hist:%s:%s' % (m1 is None, m2 is None)))
    R.states += n + 1
    R.transitions += 2 * n


def run_conformance(task, R, c):
    """real RNG with recorder -> replay the recorded answers under the chooser -> identical molecule"""
    import cgsmiles.sample as S
    for seed in task['seeds']:
        rec = own.Recorder()
        S.random = rec
        err1 = None
        m1 = None
        try:
            sampler = make_sampler(c, seed=seed)
            m1 = sampler.sample(task['target'], start_fragment=c['start'])
        except (IndexError, ValueError, OSError, KeyError, SyntaxError) as e:
            err1 = type(e).__name__
        ch = own.Chooser()
        inp = {'kind': 'conformance', 'config': task['config'], 'target': task['target'], 'seed': seed, 'path': list(rec.path)}
        try:
            s2, m2, err2 = run_path(c, task['target'], rec.path, ch)
        except own.ReplayDivergence as e:
            R.record(inp, bad('conformance:real-rng-path-not-in-choice-tree', None, {'error': str(e), 'path': rec.path}))
            continue
        same = (err1 is None) == (err2 is None) and (m1 is None or dump(m1) == dump(m2)) and ch.taken[:len(rec.path)] == list(rec.path)
        if not same:
            R.record(inp, bad('conformance:replay-differs-from-real-rng', None, {'path': rec.path, 'err_real': err1, 'err_replay': err2}))
        else:
            R.record(inp, Verdict(nontrivial=m1 is not None and len(rec.path) > 1, outcome='conf:' + str(len(rec.path))))
    R.states += 1
    R.transitions += 1


def sanity(total, tier):
    out = []
    if len(total.outcomes) < 20:
        out.append('fewer than 20 distinct sampled molecules')
    return out
