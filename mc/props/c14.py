"""C14 — annotations mean the same however written and reach the graphs unchanged.

Derivation exploration of annotation strings: abstract content (values of the
reserved keys, free keys) -> which reserved keys are written positionally
(prefix rule) -> order of all entries -> numeric spelling; every string is read /
resolved on the real code at three levels and compared with the reference
semantics R-annot of its abstract content."""
import itertools
from ..core import Explorer, Verdict, bad

ID = 'C14'
RULE = ('Annotation strings are derived from an abstract content (value or absence of each reserved key, 0-2 free keys): '
        'every split into positional prefix / keyword entries, every order of the entries (positional ones keep their relative '
        'order), every numeric spelling from a fixed table; at base-graph level (read and resolved with node reuse 1-3), '
        'atomistic fragment level (bracket atoms incl. annotated hydrogen and single-atom fragments, fragment reuse 1-3) and '
        'coarse fragment level (keyword form). Oracle R-annot: attributes depend on the abstract content only; defaults charge '
        '0.0 / weight 1.0; reserved numeric keys are float; free keys verbatim strings; base annotations sit on the same node of '
        'the returned coarse graph, fragment annotations on every copy of the atom. Non-trivial = at least one entry.')
ASSUMPTIONS = [
    'reserved keys: base graph (q, w) in this positional order; atomistic fragment (w, x); coarse fragment: keyword forms only '
    '(the documentation and the pinned unit test disagree on the positional order there)',
    'outside the alphabet: duplicate keys, empty entries, free keys named like the long attribute names',
]
EXPLANATION = 'bounded-exhaustive derivation of annotation spellings, reference-semantics oracle on reader and resolver'

NUM = {'1': 1.0, '+1': 1.0, '-1': -1.0, '0.5': 0.5, '-0.25': -0.25, '1e-1': 0.1, '2.': 2.0, '0': 0.0}
FREE = [('k', 'ab'), ('mass', '72')]


def spellings(level, content, full):
    """all strings for an abstract content {'q':spelling|None, 'w':..., 'x':..., 'free': tuple}"""
    order = {'base': ['q', 'w'], 'aa': ['w', 'x'], 'cg': []}[level]
    reserved = [k for k in ('q', 'w', 'x') if content.get(k) is not None]
    out = set()
    # positional prefix: the first m keys of `order`, all present
    for m in range(0, len(order) + 1):
        pos_keys = order[:m]
        if any(content.get(k) is None for k in pos_keys):
            break
        kw = [k for k in reserved if k not in pos_keys] + ['free:%d' % i for i in range(len(content['free']))]
        pos_entries = [content[k] for k in pos_keys]
        perms = list(itertools.permutations(kw))
        if not full and len(perms) > 6:
            perms = perms[:3] + perms[-3:]
        for perm in perms:
            kw_entries = []
            for k in perm:
                if k.startswith('free:'):
                    fk, fv = content['free'][int(k[5:])]
                    kw_entries.append('%s=%s' % (fk, fv))
                else:
                    kw_entries.append('%s=%s' % (k, content[k]))
            out.add(';'.join(pos_entries + kw_entries))
            if full and pos_entries and kw_entries:
                # keyword entries may also precede / interleave with positional ones
                out.add(';'.join(kw_entries[:1] + pos_entries + kw_entries[1:]))
    return sorted(out)


def expected(level, content):
    d = {}
    if level in ('base', 'cg'):
        d['charge'] = NUM[content['q']] if content.get('q') is not None else 0.0
    d['weight'] = NUM[content['w']] if content.get('w') is not None else 1.0
    if content.get('x') is not None:
        d['chiral'] = content['x']
    for k, v in content['free']:
        d[k] = v
    return d


def contents(level, q):
    nums = ['+1', '-0.25', '1e-1', '0'] if q else list(NUM)
    qs = [None] + nums if level in ('base', 'cg') else [None]
    ws = [None] + (['0.5', '2.', '0', '-1'] if q else list(NUM))
    xs = [None, 'R', 'S'] if level == 'aa' else [None]
    frees = [(), (FREE[0],), (FREE[0], FREE[1])] if q else [(), (FREE[0],), (FREE[1],), (FREE[0], FREE[1])]
    for a in qs:
        for b in ws:
            for c in xs:
                for f in frees:
                    yield {'q': a, 'w': b, 'x': c, 'free': f}


HOSTS = {
    'base': ['{[#A;%s]}', '{[#B][#A;%s]1[#B][#B]1}', '{[#A;%s]|%d[#B]}.{#A=[$]CC[$],#B=[$]O}',
             '{[#B][#A;%s]([#B])|%d}.{#A=[$]C([$])C[$],#B=[$]O}'],
    'aa': ['{[#A]|%d}.{#A=[$]C[O;%s]C[$]}', '{[#A]|%d}.{#A=[$]C([H;%s])O[$]}', '{[#B][#A]|%d}.{#A=[$][O;%s][$],#B=[$]C}',
           '{[#A]|%d}.{#A=[>]C[CH;%s](F)[<]}'],
    'cg': ['{[#A]|%d}.{#A=[$][#X][#Y;%s][$]}', '{[#A]|%d}.{#A=[>][#Y;%s]1[#X][#Z]1[<]}'],
}


def plan(tier, seed):
    q = tier == 'quick'
    tasks = []
    for level in ('base', 'aa', 'cg'):
        cs = list(contents(level, q))
        for i in range(0, len(cs), 4):
            tasks.append({'space': 'annot-' + level, 'level': level, 'contents': cs[i:i + 4], 'full': True,
                          'reuse': (1, 3) if q else (1, 2, 3)})
    # seed slice: all spellings of one seed-chosen numeric pair incl. interleavings, reuse up to 4
    nums = sorted(NUM)
    a, b = nums[seed % len(nums)], nums[(seed // 3 + 2) % len(nums)]
    for level in ('base', 'aa'):
        cs = [{'q': a if level == 'base' else None, 'w': b, 'x': 'S' if level == 'aa' else None, 'free': (FREE[0], FREE[1])}]
        tasks.append({'space': 'seed-slice', 'level': level, 'contents': cs, 'full': True, 'reuse': (1, 4)})
    return tasks


def run_task(task, R):
    ex = Explorer(dedup=False)
    level = task['level']

    def succ(state):
        if state[0] == 'root':
            return [('content', i) for i in range(len(task['contents']))]
        if state[0] == 'content':
            sp = spellings(level, task['contents'][state[1]], task['full'])
            return [('spelling', state[1], s) for s in sp]
        if state[0] == 'spelling':
            out = []
            for h, host in enumerate(HOSTS[level]):
                for n in (task['reuse'] if '%d' in host else (1,)):
                    out.append(('case', state[1], state[2], h, n))
            return out
        return []
    for st in ex.run(('root',), succ, lambda s: s[0] == 'case'):
        _, ci, sp, h, n = st
        inp = {'level': level, 'content': task['contents'][ci], 'annotation': sp, 'host': h, 'reuse': n}
        R.record(inp, evaluate(inp))
    R.add_explorer(ex)


def evaluate(inp):
    from cgsmiles import read_cgsmiles, MoleculeResolver
    level = inp['level']
    content = dict(inp['content'])
    content['free'] = tuple(tuple(f) for f in content['free'])
    ann = inp['annotation']
    host = HOSTS[level][inp['host']]
    n = inp['reuse']
    want = expected(level, content)
    nontrivial = bool(ann)
    if not ann:
        # no entry at all: write the plain node
        host = host.replace(';%s', '%s')
    s = host % ((ann, n) if host.index('%s') < host.index('%d') else (n, ann)) if '%d' in host else host % ann

    def cmp(attrs, where):
        for k, v in want.items():
            if k not in attrs:
                return bad('missing:' + k, want, {'string': s, 'where': where, 'attrs': {a: repr(b) for a, b in attrs.items() if a in want or a in ('q', 'w', 'x')}}, nontrivial=nontrivial)
            if attrs[k] != v or type(attrs[k]) is not type(v):
                return bad('value:' + k, want, {'string': s, 'where': where, 'got': repr(attrs[k])}, nontrivial=nontrivial)
        for k in ('q', 'x') + (('w',) if level != 'cg' else ()):
            if k in attrs:
                return bad('short-key-left:' + k, want, {'string': s, 'where': where, 'got': repr(attrs[k])}, nontrivial=nontrivial)
        if 'chiral' in attrs and 'chiral' not in want:
            return bad('spurious:chiral', want, {'string': s, 'where': where}, nontrivial=nontrivial)
        return None
    try:
        if level == 'base' and '.{' not in s:
            g = read_cgsmiles(s)
            node = [k for k in g.nodes if g.nodes[k]['fragname'] == 'A'][0]
            r = cmp(g.nodes[node], 'read_cgsmiles node %d' % node)
            if r:
                return r
            for k in g.nodes:
                if k != node and (g.nodes[k].get('charge') != 0.0 or g.nodes[k].get('weight') != 1.0 or len(g.nodes[k]) != 3):
                    return bad('annotation-leaks-to-other-node', None, {'string': s, 'node': k, 'attrs': dict(g.nodes[k])}, nontrivial=nontrivial)
            return Verdict(nontrivial=nontrivial, outcome=str(sorted(want.items())))
        res = MoleculeResolver.from_string(s, last_all_atom=(level != 'cg'))
        coarse, fine = res.resolve_all()
        if level == 'base':
            hits = [k for k in coarse.nodes if coarse.nodes[k]['fragname'] == 'A']
            if len(hits) != n:
                return bad('node-count', n, {'string': s, 'nodes': len(hits)}, nontrivial=nontrivial)
            for k in hits:
                r = cmp(coarse.nodes[k], 'coarse node %d' % k)
                if r:
                    return r
        else:
            # the annotated template atom is the one whose text carries the annotation
            tmpl = res.fragment_dicts[0]['A']
            tnodes = [t for t, d in tmpl.nodes(data=True) if any(k in d for k in want if k not in ('weight', 'charge'))
                      or d.get('weight', 1.0) != 1.0 or d.get('charge', 0.0) != 0.0]
            copies = [(m, d) for m, d in fine.nodes(data=True) if d.get('mapping') and any(f == 'A' for f, t in d['mapping'])]
            key = {0: 'O', 1: 'H', 2: 'O', 3: 'C'}[inp['host']] if level == 'aa' else 'Y'
            if level == 'aa':
                target_t = [t for t, d in tmpl.nodes(data=True) if d.get('element') == key and
                            (inp['host'] != 3 or any(tmpl.nodes[x].get('element') == 'F' for x in tmpl[t]))]
            else:
                target_t = [t for t, d in tmpl.nodes(data=True) if d.get('atomname') == key]
            if len(target_t) != 1:
                return bad('template-atom-not-found', None, {'string': s}, nontrivial=nontrivial)
            t = target_t[0]
            r = cmp(tmpl.nodes[t], 'template atom %d' % t)
            if r:
                return r
            hits = [m for m, d in copies if ('A', t) in [tuple(x) for x in d['mapping']]]
            if len(hits) != n:
                return bad('copy-count', n, {'string': s, 'copies': len(hits)}, nontrivial=nontrivial)
            for m in hits:
                r = cmp(fine.nodes[m], 'fine node %d' % m)
                if r:
                    return r
            # the annotation must not leak to other atoms of the fragment
            for m, d in copies:
                if m in hits:
                    continue
                for fk, _ in content['free']:
                    if fk in d:
                        return bad('annotation-leaks-to-other-atom', None, {'string': s, 'node': m}, nontrivial=nontrivial)
                if d.get('weight', 1.0) != 1.0 and 'weight' in want and want['weight'] != 1.0:
                    return bad('annotation-leaks-to-other-atom', None, {'string': s, 'node': m}, nontrivial=nontrivial)
    except Exception as e:
        return bad('raises:' + type(e).__name__, want, {'string': s, 'error': repr(e)[:150]}, nontrivial=nontrivial)
    return Verdict(nontrivial=nontrivial, outcome=str(sorted(want.items())))


def classify(viol, finding):
    sig = finding['signature']
    if viol['cls'] not in sig['cls_in']:
        return False
    inp = viol['input']
    return inp['level'] == sig['level'] and inp['content'].get(sig['key']) is not None


def sanity(total, tier):
    return ['fewer than 20 distinct outcomes'] if len(total.outcomes) < 20 else []
