"""C07 — writing a graph and reading it back is the identity.

Explicit-state enumeration of all connected labelled graphs within the bound
(decision per node pair: absent or one of the bond orders), crossed with name
assignments and node-key relabelings; each is written by the real writer, read
by the real reader and compared up to isomorphism."""
import itertools
import networkx as nx
from ..core import Explorer, Verdict, bad

ID = 'C07'
RULE = ('States = partial labelled graphs (node pairs decided in lexicographic order: absent or a bond order); '
        'terminal = all pairs decided and the graph connected. Every terminal graph x name assignment x key '
        'relabeling is written with write_cgsmiles_graph, read back with read_cgsmiles and compared up to '
        'isomorphism (fragname, order). Non-trivial = has a ring-closing edge, a branch or a non-single order.')
ASSUMPTIONS = [
    'isomorphism is decided by networkx is_isomorphic with fragname / order matching (exact, no heuristics)',
    'node keys are integers (identity, offset and shuffled insertion order); other hashables are outside the alphabet',
]
EXPLANATION = 'bounded-exhaustive enumeration of connected labelled graphs through the real writer and reader'


def spaces(tier, seed):
    sp = []
    if tier == 'quick':
        sp.append(('n4-orders012', dict(n=4, orders=(0, 1, 2), names='AB', relabel=('id', 'offset', 'revins'))))
        sp.append(('n4-orders1234', dict(n=4, orders=(1, 3, 4), names='A', relabel=('id', 'strings'))))
        sp.append(('n5-orders12', dict(n=5, orders=(1, 2), names='ABCDE', relabel=('id', 'revins'), max_nonsingle=2)))
        sp.append(('n5-orders013', dict(n=5, orders=(0, 1, 3), names='ABCDE', relabel=('id',), max_nonsingle=2)))
    else:
        sp.append(('n4-orders01234', dict(n=4, orders=(0, 1, 2, 3, 4), names='AB', relabel=('id', 'offset', 'revins'))))
        sp.append(('n5-orders012', dict(n=5, orders=(0, 1, 2), names='ABCDE', relabel=('id', 'offset', 'revins'), max_nonsingle=3)))
        sp.append(('n6-orders12', dict(n=6, orders=(1, 2), names='ABCDEF', relabel=('id',), max_nonsingle=2, max_edges=9)))
    # seed slice: dense 7-node graphs (K7 minus <= 2 edges) reach >= 10 open ring markers (%10 next to digits)
    sp.append(('seed-dense7', dict(n=7, orders=(1, (2, 0, 3, 4)[seed % 4]), names='ABCDEFG', relabel=('id',),
                                   min_edges=19 if tier == 'quick' else 18, max_nonsingle=1, dense_seed=seed)))
    return sp


def pairs(n):
    return [(i, j) for i in range(n) for j in range(i + 1, n)]


def succ_factory(P):
    n = P['n']
    pr = pairs(n)
    choices = (None,) + tuple(P['orders'])
    max_ns = P.get('max_nonsingle')
    max_e = P.get('max_edges')
    min_e = P.get('min_edges', 0)

    def succ(s):
        idx, edges = s
        if idx == len(pr):
            return []
        out = []
        ne = len(edges)
        remaining = len(pr) - idx - 1
        ns = sum(1 for _, _, o in edges if o != 1)
        for c in choices:
            if c is None:
                if ne + remaining < max(min_e, n - 1):
                    continue
                out.append((idx + 1, edges))
            else:
                if max_e is not None and ne + 1 > max_e:
                    continue
                if c != 1 and max_ns is not None and ns + 1 > max_ns:
                    continue
                out.append((idx + 1, edges + ((pr[idx][0], pr[idx][1], c),)))
        return out

    def terminal(s):
        idx, edges = s
        if idx != len(pr) or len(edges) < max(min_e, n - 1):
            return False
        g = nx.Graph()
        g.add_nodes_from(range(n))
        g.add_edges_from((a, b) for a, b, _ in edges)
        return nx.is_connected(g)
    return succ, terminal


def plan(tier, seed):
    tasks = []
    for name, P in spaces(tier, seed):
        # roots: decide the first k pairs
        k = min(4, len(pairs(P['n'])))
        succ, _ = succ_factory(P)
        ex = Explorer(dedup=False)
        roots = [s for s in ex.run((0, ()), lambda s: succ(s) if s[0] < k else [], lambda s: s[0] == k)]
        for r in roots:
            tasks.append({'space': name, 'P': P, 'root': r, 'pre_states': 0})
        tasks[-1]['pre_states'] = ex.states
    return tasks


def name_assignments(n, names):
    if len(names) >= n:
        return [tuple(names[:n])]
    return list(itertools.product(names, repeat=n))


def build(n, edges, names, relabel):
    """the input graph of one case"""
    keymap = {'id': lambda i: i, 'offset': lambda i: 10 + 3 * i, 'revins': lambda i: i, 'strings': lambda i: 'n%d' % i}[relabel]
    g = nx.Graph()
    order = range(n - 1, -1, -1) if relabel == 'revins' else range(n)
    for i in order:
        g.add_node(keymap(i), fragname=names[i])
    es = list(edges)
    if relabel == 'revins':
        es = es[::-1]
    for a, b, o in es:
        g.add_edge(keymap(a), keymap(b), order=o)
    return g


def run_task(task, R):
    P = task['P']
    succ, terminal = succ_factory(P)
    ex = Explorer(dedup=False)
    ex.states += task.get('pre_states', 0)
    names_list = name_assignments(P['n'], P['names'])
    for st in ex.run(tuple(task['root']) if not isinstance(task['root'], tuple) else task['root'], succ, terminal):
        edges = st[1]
        for names in names_list:
            for rl in P['relabel']:
                inp = {'n': P['n'], 'edges': edges, 'names': names, 'relabel': rl}
                R.record(inp, evaluate(inp))
    R.add_explorer(ex)


def evaluate(inp):
    from cgsmiles import read_cgsmiles
    from cgsmiles.write_cgsmiles import write_cgsmiles_graph
    n = inp['n']
    edges = [tuple(e) for e in inp['edges']]
    g = build(n, edges, inp['names'], inp['relabel'])
    nontrivial = len(edges) >= n or any(o != 1 for _, _, o in edges) or any(d >= 3 for _, d in g.degree())
    expected = {'edges': sorted(edges), 'names': list(inp['names'])}
    try:
        s = write_cgsmiles_graph(g)
    except Exception as e:
        return bad('write-raises:' + type(e).__name__, expected, repr(e)[:200], nontrivial=nontrivial)
    try:
        h = read_cgsmiles(s)
    except Exception as e:
        return bad('read-raises:' + type(e).__name__, expected, {'string': s, 'error': repr(e)[:200]}, nontrivial=nontrivial)
    ok = nx.is_isomorphic(g, h, node_match=lambda a, b: a.get('fragname') == b.get('fragname'),
                          edge_match=lambda a, b: a.get('order') == b.get('order'))
    if not ok:
        same_shape = nx.is_isomorphic(g, h)
        names_ok = sorted(nx.get_node_attributes(g, 'fragname').values()) == sorted(nx.get_node_attributes(h, 'fragname').values())
        cls = 'shape' if not same_shape else 'names' if not names_ok else 'orders'
        obs = {'string': s, 'edges': sorted((min(a, b), max(a, b), o) for a, b, o in h.edges(data='order'))}
        return bad(cls, expected, obs, nontrivial=nontrivial)
    return Verdict(nontrivial=nontrivial, outcome=s.translate({ord(c): None for c in 'ABCDEFG'}))


def sanity(total, tier):
    return ['fewer than 20 distinct outcomes'] if len(total.outcomes) < 20 else []
