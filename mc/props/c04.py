"""C04 — the graph reader implements the documented grammar.

Explicit-state exploration of the grammar's token-level transition system
(mc/gen/grammar.py); every complete sentence within the bound is read by the
real `read_cgsmiles` and compared with the reference denotation R-graph."""
from ..core import Explorer, Verdict, bad
from ..gen import grammar as G

ID = 'C04'
RULE = ('States = token prefixes of the documented graph grammar (one transition appends one token; '
        'tree-shaped, so every sentence is generated exactly once); every complete sentence within the '
        'bound of its space is read by cgsmiles.read_cgsmiles and compared node by node and edge by edge '
        'with the reference denotation. Non-trivial = at least 2 nodes and a branch, ring bond or explicit '
        'bond symbol. distinct_outcomes = number of different (node count, edge/order multiset) results.')
ASSUMPTIONS = [
    'reference denotation R-graph (mc/gen/grammar.py:denote) is the meaning of the documented grammar; '
    'ring bond order = symbol before the opening marker; %-markers take all following digits',
    'sentences denoting self loops / double edges / dangling rings are outside C04 (they are C20 faults)',
    'bond symbols before a closing ring marker and inside "(" are not in the documented grammar and not generated',
]
EXPLANATION = 'bounded-exhaustive explicit-state enumeration of grammar sentences executed on the real reader'

ANNOTS = {
    '': {'charge': 0.0, 'weight': 1.0},
    'q=1': {'charge': 1.0, 'weight': 1.0},
    '+1': {'charge': 1.0, 'weight': 1.0},
    '-0.25': {'charge': -0.25, 'weight': 1.0},
    '0;0.5': {'charge': 0.0, 'weight': 0.5},
    'w=2': {'charge': 0.0, 'weight': 2.0},
    'w=0.5;q=-1': {'charge': -1.0, 'weight': 0.5},
    'mass=72': {'charge': 0.0, 'weight': 1.0, 'mass': '72'},
    'q=1;k=ab': {'charge': 1.0, 'weight': 1.0, 'k': 'ab'},
    'k=ab': {'charge': 0.0, 'weight': 1.0, 'k': 'ab'},
}
ALL = ('=', '.', '-', '#', '$')


def spaces(tier, seed):
    sp = []
    if tier == 'quick':
        sp.append(('core5-bonds', G.Bound(max_nodes=5, max_depth=3, max_open=2, max_rings=2,
                                          bonds=('=', '.'), ring_styles=('d',)), 5))
        sp.append(('styles5', G.Bound(max_nodes=5, max_depth=2, max_open=2, max_rings=2, bonds=('=',),
                                      bond_positions=('ring',), max_bonds=2), 5))
        sp.append(('allsym4', G.Bound(max_nodes=4, max_depth=3, max_open=2, max_rings=2, bonds=ALL,
                                      ring_styles=('d',)), 4))
        sp.append(('annot3', G.Bound(max_nodes=3, max_depth=2, max_open=1, max_rings=1, bonds=('=',),
                                     ring_styles=('d', 'p'), annots=[a for a in ANNOTS if a and a != 'k=ab']), 3))
        sp.append(('names4', G.Bound(max_nodes=4, max_depth=2, max_open=1, max_rings=1, bonds=('.',),
                                     ring_styles=('d',), names=['PEO', 'A1', 'b_2', 'X9y']), 3))
    else:
        sp.append(('core6-bonds', G.Bound(max_nodes=6, max_depth=3, max_open=3, max_rings=2,
                                          bonds=('=', '.'), ring_styles=('d',), max_bonds=4), 6))
        sp.append(('core5-rings3', G.Bound(max_nodes=5, max_depth=3, max_open=3, max_rings=3,
                                           bonds=('=', '.'), ring_styles=('d',)), 5))
        sp.append(('styles6', G.Bound(max_nodes=6, max_depth=2, max_open=3, max_rings=3, bonds=('=',),
                                      bond_positions=('ring',), max_bonds=2), 6))
        sp.append(('allsym5', G.Bound(max_nodes=5, max_depth=3, max_open=2, max_rings=2, bonds=ALL,
                                      ring_styles=('d',), max_bonds=3), 5))
        sp.append(('annot4', G.Bound(max_nodes=4, max_depth=2, max_open=1, max_rings=1, bonds=('=',),
                                     ring_styles=('d', 'p'), annots=[a for a in ANNOTS if a and a != 'k=ab']), 4))
        sp.append(('names4', G.Bound(max_nodes=4, max_depth=2, max_open=1, max_rings=1, bonds=('.',),
                                     ring_styles=('d',), names=['PEO', 'A1', 'b_2', 'X9y']), 3))
    # seed slice: 7-node sentences over a two-symbol alphabet and a shape family chosen by the seed,
    # enumerated completely
    pairs = [('=', '.'), ('#', '-'), ('$', '='), ('.', '#'), ('-', '$')]
    fam = [dict(max_depth=1, max_open=1, max_rings=1), dict(max_depth=2, max_open=0, max_rings=0),
           dict(max_depth=0, max_open=2, max_rings=2)][(seed // 5) % 3]
    sp.append(('seed-slice7', G.Bound(max_nodes=7 if tier == 'thorough' else 6, bonds=pairs[seed % 5],
                                      ring_styles=('d',), max_bonds=2, **fam), 5))
    return sp


def roots(B, k):
    """all states with exactly k tokens (sub-tree roots) plus the top task covering shorter ones"""
    Bk = G.Bound.from_json(B.to_json())
    Bk.max_tokens = k
    ex = Explorer(dedup=False)
    return [s for s in ex.run(G.INIT, lambda s: G.succ(s, Bk), lambda s: len(s[0]) == k)]


def plan(tier, seed):
    tasks = []
    for name, B, k in spaces(tier, seed):
        bj = B.to_json()
        tasks.append({'space': name, 'bound': bj, 'root': None, 'k': k})
        for r in roots(B, k):
            tasks.append({'space': name, 'bound': bj, 'root': r, 'k': k})
    # big sub-trees first
    return tasks


def run_task(task, R):
    B = G.Bound.from_json(task['bound'])
    ex = Explorer(dedup=False)
    if task['root'] is None:
        B.max_tokens = task['k'] - 1
        init = G.INIT
    else:
        init = task['root']
    for st in ex.run(init, lambda s: G.succ(s, B), G.complete):
        toks = st[0]
        inp = {'s': G.ser(toks), 'tokens': toks}
        R.record(inp, evaluate(inp))
    R.add_explorer(ex)


def expected_graph(tokens):
    nodes, edges = G.denote(tokens)
    exp_nodes = []
    for name, annot in nodes:
        d = {'fragname': name}
        d.update(ANNOTS[annot])
        exp_nodes.append(d)
    return exp_nodes, edges


def compare(got, exp_nodes, exp_edges):
    """returns None when equal, else (cls, observed)"""
    if sorted(got.nodes) != list(range(len(exp_nodes))):
        return 'nodes:keys', sorted(got.nodes)
    for i, d in enumerate(exp_nodes):
        gd = dict(got.nodes[i])
        if gd != d:
            return 'nodes:attrs', {str(i): gd}
        for key in ('charge', 'weight'):
            if type(gd[key]) is not float:
                return 'nodes:type', {str(i): gd}
    ge = {}
    for a, b, d in got.edges(data=True):
        ge[(min(a, b), max(a, b))] = d.get('order', 'missing')
        if set(d) != {'order'}:
            return 'edges:attrs', d
    if ge != exp_edges:
        if set(ge) != set(exp_edges):
            return 'edges:set', sorted(ge.items())
        return 'edges:order', sorted(ge.items())
    return None


def evaluate(inp):
    from cgsmiles import read_cgsmiles
    tokens = [tuple(t) for t in inp['tokens']]
    try:
        exp_nodes, exp_edges = expected_graph(tokens)
    except G.NotSimple:
        return Verdict(skip=True, outcome='not-a-simple-graph')
    nontrivial = len(exp_nodes) >= 2 and any(t[0] in ('b', 'r', '(') for t in tokens)
    expected = {'nodes': exp_nodes, 'edges': sorted(exp_edges.items())}
    try:
        got = read_cgsmiles(inp['s'])
    except Exception as e:  # the grammar sentence must be accepted
        return bad('raises:' + type(e).__name__, expected, repr(e)[:200], nontrivial=nontrivial)
    diff = compare(got, exp_nodes, exp_edges)
    if diff:
        return bad(diff[0], expected, diff[1], nontrivial=nontrivial)
    return Verdict(nontrivial=nontrivial,
                   outcome='%d/%s' % (len(exp_nodes), sorted(exp_edges.values())))


def sanity(total, tier):
    out = []
    if len(total.outcomes) < 20:
        out.append('fewer than 20 distinct outcomes: exploration looks vacuous')
    return out
