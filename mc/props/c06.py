"""C06 — layered resolutions compose.

A fragmented molecule (C01 model + partition) or a coarse named graph is
grouped hierarchically (1-3 intermediate levels, every partition of the
previous level into connected groups); the generator writes the multi-level
string.  Histories: the three ways of driving the resolver."""
import itertools
import networkx as nx
from ..core import Explorer, Verdict, bad
from ..gen import molecules as M
from ..ref import oracles as O

ID = 'C06'
RULE = ('Bottom graphs: feature molecules with every partition into <=4-5 fragments, and small coarse named graphs; every '
        'hierarchical grouping (all partitions of the previous level into connected groups, 1-3 intermediate levels) is '
        'written as a multi-level CGsmiles string (crossing edges = uniquely labelled descriptor pairs carrying the crossing '
        'edge order; upper edge order = number of crossing edges). Each string is resolved by the three drivers (repeated resolve, '
        'resolve_iter, resolve_all) on the real resolver; oracle: final graph isomorphic to the flattened two-level '
        'resolution, each step\'s coarse graph is the previous fine graph, mapping/bond invariants at every step, all drivers '
        'agree, nothing is returned after the last level. Non-trivial = at least one intermediate level with a group of >=2 nodes.')
ASSUMPTIONS = [
    'the flattened two-level string itself is covered by C01/C02/C03',
    'after the last level a further resolve() may raise or return None; it must not return a graph pair',
]
EXPLANATION = 'bounded-exhaustive enumeration of hierarchical groupings x resolver driving histories'

SYM = {0: '.', 1: '', 2: '=', 3: '#', 4: '$'}


def connected_partitions(g, max_groups=None):
    """all partitions of the nodes of g into connected groups"""
    nodes = sorted(g.nodes)
    edges = list(g.edges)
    seen = set()
    out = []
    for mask in range(1 << len(edges)):
        h = nx.Graph()
        h.add_nodes_from(nodes)
        h.add_edges_from(e for i, e in enumerate(edges) if mask >> i & 1)
        comps = tuple(sorted(tuple(sorted(c)) for c in nx.connected_components(h)))
        if comps in seen:
            continue
        seen.add(comps)
        if max_groups and len(comps) > max_groups:
            continue
        out.append(comps)
    return out


def quotient(g, comps):
    """quotient graph over groups; edge attr n = number of crossing edges, cross = list of (u, v, order)"""
    owner = {n: i for i, c in enumerate(comps) for n in c}
    q = nx.Graph()
    q.add_nodes_from(range(len(comps)))
    for u, v, d in g.edges(data=True):
        a, b = owner[u], owner[v]
        if a == b:
            continue
        if not q.has_edge(a, b):
            q.add_edge(a, b, cross=[])
        q.edges[a, b]['cross'].append((u, v, d['order']))
    for a, b, d in q.edges(data=True):
        d['order'] = len(d['cross'])
    return q, owner


def render_coarse(g, nodes, names, descr, start=None):
    """CGsmiles text of the sub-graph `nodes` of the named graph g with descriptors descr[node] = [(text, order)]"""
    sub = g.subgraph(nodes)
    start = min(nodes) if start is None or start not in nodes else start
    tree = {}
    seen = []

    def dfs(u, p):
        seen.append(u)
        tree[u] = []
        for v in sorted(sub[u]):
            if v == p or v in tree:
                continue
            tree[u].append(v)
            dfs(v, u)
    dfs(start, None)
    te = {frozenset((u, v)) for u in tree for v in tree[u]}
    pos = {n: i for i, n in enumerate(seen)}
    ring_at = {n: '' for n in nodes}
    d = 1
    for a, b in sorted((e for e in sub.edges if frozenset(e) not in te), key=lambda e: sorted((pos[e[0]], pos[e[1]]))):
        if pos[a] > pos[b]:
            a, b = b, a
        ring_at[a] += SYM[sub.edges[a, b]['order']] + str(d)
        ring_at[b] += str(d)
        d += 1

    def emit(u):
        s = '[#%s]' % names[u] + ring_at[u] + ''.join(SYM[o] + '[' + t + ']' for t, o in descr.get(u, []))
        kids = tree[u]
        for k in kids[:-1]:
            s += SYM[sub.edges[u, k]['order']] + '(' + emit(k) + ')'
        if kids:
            s += SYM[sub.edges[u, kids[-1]]['order']] + emit(kids[-1])
        return s
    return emit(start)


def level_block(g, names, comps, gnames, kind_of, share=None, share_first=False):
    """fragment block defining each group (name gnames[i]) as coarse fragment of its members.
    share = index of a crossing edge that is expressed by sharing its second end node (squash operator)
    instead of a bond."""
    q, owner = quotient(g, comps)
    descr = {}
    lab = 0
    g2 = g
    names2 = dict(names)
    comps2 = [list(c) for c in comps]
    idx = 0
    starts = {}
    for a, b, d in sorted(q.edges(data=True)):
        for u, v, o in d['cross']:
            L = M.LABELS[lab % 26] + (str(lab // 26) if lab >= 26 else '')
            lab += 1
            if share is not None and idx == share:
                # u keeps a private copy w of v inside its own group; w and v are marked as shared
                if g2 is g:
                    g2 = g.copy()
                w = max(g2.nodes) + 1
                g2.add_node(w)
                g2.add_edge(u, w, order=o)
                names2[w] = names[v]
                comps2[owner[u]].append(w)
                descr.setdefault(w, []).append(('!' + L, 1))
                descr.setdefault(v, []).append(('!' + L, 1))
                if share_first:
                    # the shared node is written first in both fragments
                    starts[owner[u]] = w
                    starts[owner[v]] = v
            else:
                k = kind_of(lab)
                tu, tv = (('$' + L, '$' + L) if k == '$' else ('>' + L, '<' + L))
                descr.setdefault(u, []).append((tu, o))
                descr.setdefault(v, []).append((tv, o))
            idx += 1
    defs = []
    for i, c in enumerate(comps2):
        defs.append('#%s=%s' % (gnames[i], render_coarse(g2, list(c), names2, descr, start=starts.get(i))))
    return '{' + ','.join(defs) + '}', q


def n_cross(g, comps):
    q, _ = quotient(g, comps)
    return sum(len(d['cross']) for _, _, d in q.edges(data=True))


def build_strings(bottom, names, groupings, atom_block=None, kind='$', share=None, reuse_names=False, share_first=False):
    """bottom: named graph (level-1 nodes with edge 'order'); groupings: list of partitions, each over the node set of
    the previous quotient.  share=(level index, crossing edge index) expresses that crossing edge by a shared node.
    Returns (layered string, flattened string, number of levels)."""
    kind_of = (lambda i: '$') if kind == '$' else (lambda i: '>' if i % 2 else '$')
    g = bottom
    nm = dict(names)
    blocks = []
    lvl = 0
    for comps in groupings:
        lvl += 1
        if reuse_names:
            gn = {i: nm[min(c)] for i, c in enumerate(comps)}
        else:
            gn = {i: 'L%dG%d' % (lvl, i) for i in range(len(comps))}
        sh = None
        if share is not None:
            shd = dict(share) if not isinstance(share[0], int) else {share[0]: share[1]}
            sh = shd.get(lvl - 1)
        blk, q = level_block(g, nm, comps, gn, kind_of, share=sh, share_first=share_first)
        blocks.append(blk)
        g, nm = q, gn
    top = M.base_string(_named(g, nm))[0]
    flat_top = M.base_string(_named(bottom, names))[0]
    if top is None or flat_top is None:
        return None
    tail = ('.' + atom_block) if atom_block else ''
    layered = top + ''.join('.' + b for b in reversed(blocks)) + tail
    flat = flat_top + tail
    return layered, flat, len(blocks) + (1 if atom_block else 0)


def _named(g, names):
    h = nx.Graph()
    for n in sorted(g.nodes):
        h.add_node(n, fragname=names[n])
    for a, b, d in g.edges(data=True):
        h.add_edge(a, b, order=d['order'])
    return h


COARSE_BOTTOMS = {
    'chain4': ([(0, 1, 1), (1, 2, 1), (2, 3, 1)], 'ABCA'),
    'star4': ([(0, 1, 1), (0, 2, 1), (0, 3, 2)], 'ABBC'),
    'ring4': ([(0, 1, 1), (1, 2, 1), (2, 3, 1), (3, 0, 1)], 'ABAB'),
    'tri-tail': ([(0, 1, 1), (1, 2, 2), (2, 0, 1), (2, 3, 1)], 'ABCD'),
    'chain5': ([(0, 1, 1), (1, 2, 2), (2, 3, 1), (3, 4, 1)], 'ABCBA'),
    'bicyc5': ([(0, 1, 1), (1, 2, 1), (2, 0, 1), (2, 3, 1), (3, 4, 1), (4, 2, 1)], 'ABCDE'),
}
MOLS_Q = ['ethanolamine', 'acetate', 'pentadiene', 'cyclopropylmethanol', 'dmso']
MOLS_T = MOLS_Q + ['toluene', 'cyclohexene', 'tmao', 'phosphate', 'bicyclobutane']


def plan(tier, seed, for_invariants=False):
    q = tier == 'quick'
    tasks = []
    for nm, (edges, names) in sorted(COARSE_BOTTOMS.items()):
        if q and len(names) > 4 and for_invariants:
            continue
        tasks.append({'space': 'layered-coarse', 'kind': 'layered', 'bottom': 'coarse', 'name': nm,
                      'max_levels': 3})
    for nm in (MOLS_Q if (q and for_invariants) else MOLS_T):
        mol = M.FEATURE[nm]
        parts = [p for p in M.partitions(mol, max_frag=4 if q else 5) if len(p) >= 2]
        step = 4 if q else 1
        for i in range(0, len(parts), step):
            tasks.append({'space': 'layered-atomistic', 'kind': 'layered', 'bottom': 'mol', 'name': nm,
                          'parts': parts[i:i + step], 'max_levels': 1 if (q and for_invariants) else 2 if q else 3})
    names = sorted(M.SLICE)
    nm = names[seed % len(names)]
    parts = [p for p in M.partitions(M.SLICE[nm], max_frag=3) if len(p) == 3]
    for i in range(0, len(parts), 6):
        tasks.append({'space': 'seed-slice', 'kind': 'layered', 'bottom': 'slice', 'name': nm, 'parts': parts[i:i + 6],
                      'max_levels': 1})
    return tasks


def groupings_succ(bottom, max_levels):
    """transition system over grouping prefixes: state = tuple of partitions"""
    def current(prefix):
        g = bottom
        for comps in prefix:
            g, _ = quotient(g, comps)
        return g

    def succ(prefix):
        if len(prefix) >= max_levels:
            return []
        g = current(prefix)
        if len(g) <= 1:
            return []
        out = []
        for comps in connected_partitions(g):
            if len(comps) == len(g):
                continue        # identity grouping adds nothing new at this level
            out.append(prefix + (comps,))
        return out
    return succ


def cases(task, R):
    ex = Explorer(dedup=False)
    bottoms = []
    if task['bottom'] == 'coarse':
        edges, names = COARSE_BOTTOMS[task['name']]
        g = nx.Graph()
        g.add_nodes_from(range(len(names)))
        for a, b, o in edges:
            g.add_edge(a, b, order=o)
        bottoms.append((g, {i: 'N' + c + str(i) for i, c in enumerate(names)}, None, False))
    else:
        mol = (M.FEATURE if task['bottom'] == 'mol' else M.SLICE)[task['name']]
        for comps in task['parts']:
            comps = tuple(tuple(c) for c in comps)
            descr, cnt = M.cut_descriptors(mol, comps, ('$', '>'))
            frags = ['#F%d=%s' % (i, M.render_fragment(mol, c, descr, c[0])) for i, c in enumerate(comps)]
            g = nx.Graph()
            g.add_nodes_from(range(len(comps)))
            for (a, b), c in cnt.items():
                g.add_edge(a, b, order=c)
            bottoms.append((g, {i: 'F%d' % i for i in range(len(comps))}, '{' + ','.join(frags) + '}', True))
    for g, names, atom_block, all_atom in bottoms:
        succ = groupings_succ(g, task['max_levels'])
        for prefix in ex.run((), succ, lambda p: len(p) >= 1):
            variants = [dict(kind='$'), dict(kind='mixed'), dict(kind='$', reuse_names=True)]
            # one crossing edge of the first grouping expressed by a shared node (squash at an intermediate level);
            # orders > 1 cannot be shared
            q0, _ = quotient(g, prefix[0])
            cross0 = [c for _, _, d in sorted(q0.edges(data=True)) for c in d['cross']]
            for ci, (u, v, o) in enumerate(cross0):
                if o == 1:
                    variants.append(dict(kind='$', share=(0, ci)))
                    variants.append(dict(kind='$', share=(0, ci), share_first=True))
            # shared nodes at two consecutive levels (the second grouping is over the first quotient)
            if len(prefix) >= 2:
                q1, _ = quotient(q0, prefix[1])
                cross1 = [c for _, _, d in sorted(q1.edges(data=True)) for c in d['cross']]
                for ci, (u, v, o) in enumerate(cross0):
                    for cj, (u1, v1, o1) in enumerate(cross1):
                        if o == 1 and o1 == 1:
                            variants.append(dict(kind='$', share=((0, ci), (1, cj))))
                            variants.append(dict(kind='$', share=((0, ci), (1, cj)), share_first=True))
            for var in variants:
                built = build_strings(g, names, prefix, atom_block, **var)
                if built is None:
                    continue
                layered, flat, nlev = built
                yield {'string': layered, 'flat': flat, 'all_atom': all_atom, 'levels': nlev, 'legacy': True,
                       'groups': [len(c) for c in prefix], 'variant': {k: v for k, v in var.items()}}
    R.add_explorer(ex)


def run_task(task, R):
    for inp in cases(task, R):
        R.record(inp, evaluate(inp))


def dump(g, all_atom):
    nodes = sorted((n, d.get('element') if all_atom else d.get('atomname'), d.get('fragname'), tuple(d.get('fragid', [])),
                    d.get('charge', 0) if all_atom else 0) for n, d in g.nodes(data=True))
    edges = sorted((min(a, b), max(a, b), d.get('order')) for a, b, d in g.edges(data=True))
    return nodes, edges


def iso_final(a, b, all_atom):
    key = 'element' if all_atom else 'atomname'
    return nx.is_isomorphic(a, b, node_match=lambda x, y: x.get(key) == y.get(key) and x.get('charge', 0) == y.get('charge', 0),
                            edge_match=lambda x, y: x.get('order') == y.get('order'))


def evaluate(inp):
    from cgsmiles import MoleculeResolver
    aa = inp['all_atom']
    nlev = inp['levels']
    nontrivial = any(g < 99 for g in inp.get('groups', [])) and nlev >= 2
    mk = lambda: MoleculeResolver.from_string(inp['string'], last_all_atom=aa)
    try:
        if '.{' in inp['flat']:
            flat_c, flat_f = MoleculeResolver.from_string(inp['flat'], last_all_atom=aa).resolve_all()
        else:
            # coarse bottom: the flattened description is the bottom graph itself
            from cgsmiles import read_cgsmiles
            flat_f = read_cgsmiles(inp['flat'])
            for n in flat_f.nodes:
                flat_f.nodes[n]['atomname'] = flat_f.nodes[n]['fragname']
    except Exception as e:
        return Verdict(skip=True, outcome='flattened-string-not-resolvable:' + type(e).__name__)
    # driver 1: repeated resolve with step invariants
    try:
        r = mk()
        if r.resolutions != nlev:
            return bad('levels', nlev, r.resolutions, nontrivial=nontrivial)
        prev_fine = None
        steps = []
        for i in range(nlev):
            coarse, fine = r.resolve()
            last = aa and i == nlev - 1
            if prev_fine is not None:
                pn, pe = prev_fine
                cn = sorted((n, d.get('fragname')) for n, d in coarse.nodes(data=True))
                ce = sorted((min(a, b), max(a, b), d.get('order')) for a, b, d in coarse.edges(data=True))
                if cn != pn or ce != pe:
                    return bad('step-coarse-is-not-previous-fine', {'nodes': pn, 'edges': pe}, {'nodes': cn, 'edges': ce, 'step': i},
                               nontrivial=nontrivial)
            res = O.check_mapping(coarse, fine, r.fragment_dicts[i], last) or \
                O.check_bonds(coarse, fine, r.fragment_dicts[i], True, last) or \
                O.check_numbering(coarse, fine, last)
            if res:
                return bad('step-invariant:' + res[0], None, {'step': i, 'detail': res[1], 'string': inp['string']}, nontrivial=nontrivial)
            prev_fine = (sorted((n, d.get('atomname')) for n, d in fine.nodes(data=True)),
                         sorted((min(a, b), max(a, b), d.get('order')) for a, b, d in fine.edges(data=True)))
            steps.append(dump(fine, last))
        final1 = fine
        extra = None
        try:
            extra = r.resolve()
        except Exception:
            extra = None
        if extra is not None:
            return bad('resolve-after-last-level-returns', None, str(type(extra)), nontrivial=nontrivial)
    except Exception as e:
        return bad('raises:' + type(e).__name__, None, {'string': inp['string'], 'error': repr(e)[:200]}, nontrivial=nontrivial)
    if not iso_final(final1, flat_f, aa):
        return bad('final-differs-from-flattened', {'flat': inp['flat'], 'n': len(flat_f), 'edges': len(flat_f.edges)},
                   {'string': inp['string'], 'n': len(final1), 'edges': len(final1.edges)}, nontrivial=nontrivial)
    # drivers 2-4
    try:
        it = [dump(f, aa and i == nlev - 1) for i, (c, f) in enumerate(mk().resolve_iter())]
        allc, allf = mk().resolve_all()
    except Exception as e:
        return bad('driver-raises:' + type(e).__name__, None, {'string': inp['string'], 'error': repr(e)[:200]}, nontrivial=nontrivial)
    if it != steps:
        return bad('resolve_iter-differs', None, {'string': inp['string']}, nontrivial=nontrivial)
    if dump(allf, aa) != steps[-1]:
        return bad('resolve_all-differs', None, {'string': inp['string']}, nontrivial=nontrivial)
    return Verdict(nontrivial=nontrivial, outcome='%d/%d/%s' % (nlev, len(final1), inp.get('groups')))


def sanity(total, tier):
    return ['fewer than 10 distinct outcomes'] if len(total.outcomes) < 10 else []
