"""C06 — layered resolutions compose.

A fragmented molecule (C01 model + partition) or a coarse named graph is
grouped hierarchically (1-3 intermediate levels, every partition of the
previous level into connected groups); the generator writes the multi-level
string.  Histories: the three ways of driving the resolver."""
import itertools
import networkx as nx
from ..core import Explorer, Verdict, bad
from ..gen import molecules as M
from ..gen import grammar as G
from ..gen import fragtext as FT
from ..ref import oracles as O

ID = 'C06'
RULE = ('Bottom graphs: feature molecules with every partition into <=4-5 fragments, and small coarse named graphs; every '
        'hierarchical grouping (all partitions of the previous level into connected groups, 1-3 intermediate levels) is '
        'written as a multi-level CGsmiles string (crossing edges = uniquely labelled descriptor pairs carrying the crossing '
        'edge order; upper edge order = number of crossing edges). Each string is resolved by the three drivers (repeated resolve, '
        'resolve_iter, resolve_all) on the real resolver; oracle: final graph isomorphic to the flattened two-level '
        'resolution, each step\'s coarse graph is the previous fine graph, mapping/bond invariants at every step, all drivers '
        'agree, nothing is returned after the last level. Coarse fragments over the token-level generators: every sentence of the graph '
        'grammar (all ring styles, multipliers) as the single fragment of a one-node base graph must resolve to the graph it denotes, '
        'and every coarse fragment text with one descriptor (after nodes, ring markers, multipliers, closed / multiplied branches) '
        'must bond the neighbouring fragment to the node the descriptor was written after. '
        'Non-trivial = at least one intermediate level with a group of >=2 nodes.')
ASSUMPTIONS = [
    'the flattened two-level string itself is covered by C01/C02/C03',
    'after the last level a further resolve() may raise or return None; it must not return a graph pair',
]
EXPLANATION = 'bounded-exhaustive enumeration of hierarchical groupings x resolver driving histories'

SYM = {0: '.', 1: '', 2: '=', 3: '#', 4: '$'}


def connected_partitions(g, max_groups=None):
    """all partitions of the nodes of g into connected groups"""
    nodes = sorted(g.nodes)
    edges = list(g.edges)
    seen = set()
    out = []
    for mask in range(1 << len(edges)):
        h = nx.Graph()
        h.add_nodes_from(nodes)
        h.add_edges_from(e for i, e in enumerate(edges) if mask >> i & 1)
        comps = tuple(sorted(tuple(sorted(c)) for c in nx.connected_components(h)))
        if comps in seen:
            continue
        seen.add(comps)
        if max_groups and len(comps) > max_groups:
            continue
        out.append(comps)
    return out


def quotient(g, comps):
    """quotient graph over groups; edge attr n = number of crossing edges, cross = list of (u, v, order)"""
    owner = {n: i for i, c in enumerate(comps) for n in c}
    q = nx.Graph()
    q.add_nodes_from(range(len(comps)))
    for u, v, d in g.edges(data=True):
        a, b = owner[u], owner[v]
        if a == b:
            continue
        if not q.has_edge(a, b):
            q.add_edge(a, b, cross=[])
        q.edges[a, b]['cross'].append((u, v, d['order']))
    for a, b, d in q.edges(data=True):
        d['order'] = len(d['cross'])
    return q, owner


def render_coarse(g, nodes, names, descr, start=None):
    """CGsmiles text of the sub-graph `nodes` of the named graph g with descriptors descr[node] = [(text, order)]"""
    sub = g.subgraph(nodes)
    start = min(nodes) if start is None or start not in nodes else start
    tree = {}
    seen = []

    def dfs(u, p):
        seen.append(u)
        tree[u] = []
        for v in sorted(sub[u]):
            if v == p or v in tree:
                continue
            tree[u].append(v)
            dfs(v, u)
    dfs(start, None)
    te = {frozenset((u, v)) for u in tree for v in tree[u]}
    pos = {n: i for i, n in enumerate(seen)}
    ring_at = {n: '' for n in nodes}
    d = 1
    for a, b in sorted((e for e in sub.edges if frozenset(e) not in te), key=lambda e: sorted((pos[e[0]], pos[e[1]]))):
        if pos[a] > pos[b]:
            a, b = b, a
        ring_at[a] += SYM[sub.edges[a, b]['order']] + str(d)
        ring_at[b] += str(d)
        d += 1

    def emit(u):
        s = '[#%s]' % names[u] + ring_at[u] + ''.join(SYM[o] + '[' + t + ']' for t, o in descr.get(u, []))
        kids = tree[u]
        for k in kids[:-1]:
            s += SYM[sub.edges[u, k]['order']] + '(' + emit(k) + ')'
        if kids:
            s += SYM[sub.edges[u, kids[-1]]['order']] + emit(kids[-1])
        return s
    return emit(start)


def level_block(g, names, comps, gnames, kind_of, share=None, share_first=False):
    """fragment block defining each group (name gnames[i]) as coarse fragment of its members.
    share = index of a crossing edge that is expressed by sharing its second end node (squash operator)
    instead of a bond."""
    q, owner = quotient(g, comps)
    descr = {}
    lab = 0
    g2 = g
    names2 = dict(names)
    comps2 = [list(c) for c in comps]
    idx = 0
    starts = {}
    for a, b, d in sorted(q.edges(data=True)):
        for u, v, o in d['cross']:
            L = M.LABELS[lab % 26] + (str(lab // 26) if lab >= 26 else '')
            lab += 1
            if share is not None and idx == share:
                # u keeps a private copy w of v inside its own group; w and v are marked as shared
                if g2 is g:
                    g2 = g.copy()
                w = max(g2.nodes) + 1
                g2.add_node(w)
                g2.add_edge(u, w, order=o)
                names2[w] = names[v]
                comps2[owner[u]].append(w)
                descr.setdefault(w, []).append(('!' + L, 1))
                descr.setdefault(v, []).append(('!' + L, 1))
                if share_first:
                    # the shared node is written first in both fragments
                    starts[owner[u]] = w
                    starts[owner[v]] = v
            else:
                k = kind_of(lab)
                tu, tv = (('$' + L, '$' + L) if k == '$' else ('>' + L, '<' + L))
                descr.setdefault(u, []).append((tu, o))
                descr.setdefault(v, []).append((tv, o))
            idx += 1
    defs = []
    for i, c in enumerate(comps2):
        defs.append('#%s=%s' % (gnames[i], render_coarse(g2, list(c), names2, descr, start=starts.get(i))))
    return '{' + ','.join(defs) + '}', q


def n_cross(g, comps):
    q, _ = quotient(g, comps)
    return sum(len(d['cross']) for _, _, d in q.edges(data=True))


def build_strings(bottom, names, groupings, atom_block=None, kind='$', share=None, reuse_names=False, share_first=False):
    """bottom: named graph (level-1 nodes with edge 'order'); groupings: list of partitions, each over the node set of
    the previous quotient.  share=(level index, crossing edge index) expresses that crossing edge by a shared node.
    Returns (layered string, flattened string, number of levels)."""
    kind_of = (lambda i: '$') if kind == '$' else (lambda i: '>' if i % 2 else '$')
    g = bottom
    nm = dict(names)
    blocks = []
    lvl = 0
    for comps in groupings:
        lvl += 1
        if reuse_names:
            gn = {i: nm[min(c)] for i, c in enumerate(comps)}
        else:
            gn = {i: 'L%dG%d' % (lvl, i) for i in range(len(comps))}
        sh = None
        if share is not None:
            shd = dict(share) if not isinstance(share[0], int) else {share[0]: share[1]}
            sh = shd.get(lvl - 1)
        blk, q = level_block(g, nm, comps, gn, kind_of, share=sh, share_first=share_first)
        blocks.append(blk)
        g, nm = q, gn
    top = M.base_string(_named(g, nm))[0]
    flat_top = M.base_string(_named(bottom, names))[0]
    if top is None or flat_top is None:
        return None
    tail = ('.' + atom_block) if atom_block else ''
    layered = top + ''.join('.' + b for b in reversed(blocks)) + tail
    flat = flat_top + tail
    return layered, flat, len(blocks) + (1 if atom_block else 0)


def _named(g, names):
    h = nx.Graph()
    for n in sorted(g.nodes):
        h.add_node(n, fragname=names[n])
    for a, b, d in g.edges(data=True):
        h.add_edge(a, b, order=d['order'])
    return h


COARSE_BOTTOMS = {
    'chain4': ([(0, 1, 1), (1, 2, 1), (2, 3, 1)], 'ABCA'),
    'star4': ([(0, 1, 1), (0, 2, 1), (0, 3, 2)], 'ABBC'),
    'ring4': ([(0, 1, 1), (1, 2, 1), (2, 3, 1), (3, 0, 1)], 'ABAB'),
    'tri-tail': ([(0, 1, 1), (1, 2, 2), (2, 0, 1), (2, 3, 1)], 'ABCD'),
    'chain5': ([(0, 1, 1), (1, 2, 2), (2, 3, 1), (3, 4, 1)], 'ABCBA'),
    'bicyc5': ([(0, 1, 1), (1, 2, 1), (2, 0, 1), (2, 3, 1), (3, 4, 1), (4, 2, 1)], 'ABCDE'),
}
MOLS_Q = ['ethanolamine', 'acetate', 'pentadiene', 'cyclopropylmethanol', 'dmso']
MOLS_T = MOLS_Q + ['toluene', 'cyclohexene', 'tmao', 'phosphate', 'bicyclobutane']


def plan(tier, seed, for_invariants=False):
    q = tier == 'quick'
    tasks = []
    for nm, (edges, names) in sorted(COARSE_BOTTOMS.items()):
        if q and len(names) > 4 and for_invariants:
            continue
        tasks.append({'space': 'layered-coarse', 'kind': 'layered', 'bottom': 'coarse', 'name': nm,
                      'max_levels': 3})
    for nm in (MOLS_Q if (q and for_invariants) else MOLS_T):
        mol = M.FEATURE[nm]
        parts = [p for p in M.partitions(mol, max_frag=4 if q else 5) if len(p) >= 2]
        step = 4 if q else 1
        for i in range(0, len(parts), step):
            tasks.append({'space': 'layered-atomistic', 'kind': 'layered', 'bottom': 'mol', 'name': nm,
                          'parts': parts[i:i + step], 'max_levels': 1 if (q and for_invariants) else 2 if q else 3})
    if not for_invariants:
        # coarse fragments over the graph grammar: a fragment block reads its coarse fragments without braces
        for name, B, k in fragment_grammar_spaces(tier):
            bj = B.to_json()
            Bk = G.Bound.from_json(bj)
            Bk.max_tokens = k
            ex = Explorer(dedup=False)
            tasks.append({'space': name, 'kind': 'fraggrammar', 'bound': bj, 'root': None, 'k': k})
            for r in ex.run(G.INIT, lambda s: G.succ(s, Bk), lambda s: len(s[0]) == k):
                tasks.append({'space': name, 'kind': 'fraggrammar', 'bound': bj, 'root': r, 'k': k})
        # coarse fragments with one descriptor at every position (after nodes, ring markers, multipliers, closed and
        # multiplied branches): the neighbouring fragment must be bonded to the node the descriptor was written after
        FB = fragment_descriptor_bound(tier)
        bj = FB.to_json()
        FBk = FT.FBound.from_json(bj)
        FBk.max_tokens = 3
        ex = Explorer(dedup=False)
        tasks.append({'space': 'fragment-descriptor', 'kind': 'fragdescr', 'bound': bj, 'root': None, 'k': 3})
        for r in ex.run(FT.INIT, lambda s: FT.succ(s, FBk), lambda s: len(s[0]) == 3):
            tasks.append({'space': 'fragment-descriptor', 'kind': 'fragdescr', 'bound': bj, 'root': r, 'k': 3})
    names = sorted(M.SLICE)
    nm = names[seed % len(names)]
    parts = [p for p in M.partitions(M.SLICE[nm], max_frag=3) if len(p) == 3]
    for i in range(0, len(parts), 6):
        tasks.append({'space': 'seed-slice', 'kind': 'layered', 'bottom': 'slice', 'name': nm, 'parts': parts[i:i + 6],
                      'max_levels': 1})
    return tasks


def fragment_grammar_spaces(tier):
    q = tier == 'quick'
    return [('fragment-grammar-rings', G.Bound(max_nodes=5, max_depth=2, max_open=2, max_rings=2, bonds=('=',) if q else ('=', '.'),
                                               ring_styles=('d', 'p', 'pp'), max_bonds=1 if q else 2), 4),
            ('fragment-grammar-mult', G.Bound(max_nodes=4, max_depth=2, max_open=1, max_rings=1, bonds=('=',),
                                              ring_styles=('d', 'p'), max_bonds=1, mults=(2,) if q else (2, 3),
                                              max_mults=1 if q else 2), 4)]


def run_fraggrammar(task, R):
    B = G.Bound.from_json(task['bound'])
    ex = Explorer(dedup=False)
    if task['root'] is None:
        B.max_tokens = task['k'] - 1
        init = G.INIT
    else:
        init = task['root']
    for st in ex.run(init, lambda s: G.succ(s, B), G.complete):
        inp = {'kind': 'fraggrammar', 'tokens': st[0]}
        R.record(inp, evaluate_fraggrammar(inp))
    R.add_explorer(ex)


def evaluate_fraggrammar(inp):
    """`{[#X]}.{#X=<sentence>}` resolves to the graph the sentence denotes"""
    from cgsmiles import MoleculeResolver
    tokens = tuple(tuple(t) for t in inp['tokens'])
    if any(t[0] == 'm' for t in tokens):
        if not G.mult_units_ok(G.parse(tokens)):
            return Verdict(skip=True, outcome='excluded-multiplied-unit-shape')
        from . import c05
        if c05.structure(tokens):
            # the two multiplied-branch shapes recorded as known findings of C05 (C05-K1, C05-K2) are decided there
            return Verdict(skip=True, outcome='shape-of-a-C05-known-finding')
        long_toks = G.expand_mult(tokens)
    else:
        long_toks = tokens
    try:
        nodes, edges = G.denote(long_toks)
    except G.NotSimple:
        return Verdict(skip=True, outcome='not-a-simple-graph')
    body = G.ser(tokens, braces=False)
    string = '{[#X]}.{#X=%s}' % body
    nontrivial = len(nodes) >= 2 and any(t[0] in ('b', 'r', '(', 'm') for t in tokens)
    expected = {'names': [n for n, _ in nodes], 'edges': sorted(edges.items())}
    try:
        coarse, fine = MoleculeResolver.from_string(string, last_all_atom=False).resolve()
    except Exception as e:
        return bad('fragment-grammar:raises:' + type(e).__name__, expected, {'string': string, 'error': repr(e)[:200]}, nontrivial=nontrivial)
    got_names = [fine.nodes[n].get('atomname') for n in sorted(fine.nodes)]
    got_edges = {(min(a, b), max(a, b)): d.get('order') for a, b, d in fine.edges(data=True)}
    if any(t[0] == 'm' and tokens[i - 1][0] != 'n' for i, t in enumerate(tokens)):
        # copies of a multiplied branch: node numbering inside a copy is not part of the denotation (as in C05)
        ref = nx.Graph()
        for i, (n, _) in enumerate(nodes):
            ref.add_node(i, atomname=n)
        for (a, b), o in edges.items():
            ref.add_edge(a, b, order=o)
        if not nx.is_isomorphic(ref, fine, node_match=lambda x, y: x['atomname'] == y.get('atomname'),
                                edge_match=lambda x, y: x['order'] == y.get('order')):
            return bad('fragment-grammar:graph', expected, {'string': string, 'names': got_names, 'edges': sorted(got_edges.items())},
                       nontrivial=nontrivial)
        return Verdict(nontrivial=nontrivial, outcome='fg-iso:%d/%s' % (len(nodes), sorted(edges.values())))
    if sorted(fine.nodes) != list(range(len(nodes))) or got_names != expected['names']:
        return bad('fragment-grammar:nodes', expected, {'string': string, 'names': got_names}, nontrivial=nontrivial)
    if got_edges != edges:
        return bad('fragment-grammar:edges', expected, {'string': string, 'edges': sorted(got_edges.items())}, nontrivial=nontrivial)
    if any(d.get('fragname') != 'X' or list(d.get('fragid', [])) != [0] for _, d in fine.nodes(data=True)):
        return bad('fragment-grammar:labels', expected, {'string': string}, nontrivial=nontrivial)
    return Verdict(nontrivial=nontrivial, outcome='fg:%d/%s' % (len(nodes), sorted(edges.values())))


def fragment_descriptor_bound(tier):
    q = tier == 'quick'
    return FT.FBound(atoms=[('[#A]', '[#A]', ''), ('[#B]', '[#B]', '')], bonds=('=',), descs=[('$', '')], dsyms=(None,),
                     max_atoms=3 if q else 4, max_descs=1, max_depth=1, max_rings=1, ring_styles=('d', 'p'), max_lead=1,
                     max_annot=0, mults=(2, 3), max_bonds=1, bond_after_open=False)


def run_fragdescr(task, R):
    B = FT.FBound.from_json(task['bound'])
    ex = Explorer(dedup=False)
    if task['root'] is None:
        B.max_tokens = task['k'] - 1
        init = FT.INIT
    else:
        init = task['root']
    for st in ex.run(init, lambda s: FT.succ(s, B), FT.complete):
        if sum(1 for t in st[0] if t[0] in ('d', 'ld')) != 1:
            continue
        inp = {'kind': 'fragdescr', 'tokens': st[0]}
        R.record(inp, evaluate_fragdescr(inp))
    R.add_explorer(ex)


def evaluate_fragdescr(inp):
    """`{[#X][#Y]}.{#X=<coarse text with one [$]>,#Y=[$][#Z]}`: X's nodes are the graph of the clean text (as read by the
    real reader, which C04/C05 decide) and Z is bonded to the node the descriptor was written after"""
    from cgsmiles import MoleculeResolver, read_cgsmiles
    tokens = [tuple(t) for t in inp['tokens']]
    clean, descs, _ = FT.reference(tokens, {})
    (owner, _), = descs.items()
    text = FT.ser(tokens)
    string = '{[#X][#Y]}.{#X=%s,#Y=[$][#Z]}' % text
    try:
        ref = read_cgsmiles('{' + clean + '}')
    except Exception as e:
        return Verdict(skip=True, outcome='clean-text-not-readable:' + type(e).__name__)
    n = len(ref)
    exp_edges = {(min(a, b), max(a, b)): o for a, b, o in ref.edges(data='order')}
    exp_edges[(owner, n)] = 1
    exp_names = [ref.nodes[i]['fragname'] for i in range(n)] + ['Z']
    nontrivial = n >= 2
    expected = {'names': exp_names, 'edges': sorted(exp_edges.items())}
    try:
        coarse, fine = MoleculeResolver.from_string(string, last_all_atom=False).resolve()
    except Exception as e:
        return bad('fragment-descriptor:raises:' + type(e).__name__, expected, {'string': string, 'error': repr(e)[:200]}, nontrivial=nontrivial)
    got_names = [fine.nodes[k].get('atomname') for k in sorted(fine.nodes)]
    got_edges = {(min(a, b), max(a, b)): d.get('order') for a, b, d in fine.edges(data=True)}
    if sorted(fine.nodes) != list(range(n + 1)) or got_names != exp_names:
        return bad('fragment-descriptor:nodes', expected, {'string': string, 'names': got_names}, nontrivial=nontrivial)
    if got_edges != exp_edges:
        return bad('fragment-descriptor:bond-on-wrong-node', expected, {'string': string, 'edges': sorted(got_edges.items())},
                   nontrivial=nontrivial)
    return Verdict(nontrivial=nontrivial, outcome='fd:%d/%d/%s' % (n, owner, any(t[0] == 'm' for t in tokens)))


def groupings_succ(bottom, max_levels):
    """transition system over grouping prefixes: state = tuple of partitions"""
    def current(prefix):
        g = bottom
        for comps in prefix:
            g, _ = quotient(g, comps)
        return g

    def succ(prefix):
        if len(prefix) >= max_levels:
            return []
        g = current(prefix)
        if len(g) <= 1:
            return []
        out = []
        for comps in connected_partitions(g):
            if len(comps) == len(g):
                continue        # identity grouping adds nothing new at this level
            out.append(prefix + (comps,))
        return out
    return succ


def cases(task, R):
    ex = Explorer(dedup=False)
    bottoms = []
    if task['bottom'] == 'coarse':
        edges, names = COARSE_BOTTOMS[task['name']]
        g = nx.Graph()
        g.add_nodes_from(range(len(names)))
        for a, b, o in edges:
            g.add_edge(a, b, order=o)
        bottoms.append((g, {i: 'N' + c + str(i) for i, c in enumerate(names)}, None, False))
    else:
        mol = (M.FEATURE if task['bottom'] == 'mol' else M.SLICE)[task['name']]
        for comps in task['parts']:
            comps = tuple(tuple(c) for c in comps)
            descr, cnt = M.cut_descriptors(mol, comps, ('$', '>'))
            frags = ['#F%d=%s' % (i, M.render_fragment(mol, c, descr, c[0])) for i, c in enumerate(comps)]
            g = nx.Graph()
            g.add_nodes_from(range(len(comps)))
            for (a, b), c in cnt.items():
                g.add_edge(a, b, order=c)
            bottoms.append((g, {i: 'F%d' % i for i in range(len(comps))}, '{' + ','.join(frags) + '}', True))
    for g, names, atom_block, all_atom in bottoms:
        succ = groupings_succ(g, task['max_levels'])
        for prefix in ex.run((), succ, lambda p: len(p) >= 1):
            variants = [dict(kind='$'), dict(kind='mixed'), dict(kind='$', reuse_names=True)]
            # one crossing edge of the first grouping expressed by a shared node (squash at an intermediate level);
            # orders > 1 cannot be shared
            q0, _ = quotient(g, prefix[0])
            cross0 = [c for _, _, d in sorted(q0.edges(data=True)) for c in d['cross']]
            for ci, (u, v, o) in enumerate(cross0):
                if o == 1:
                    variants.append(dict(kind='$', share=(0, ci)))
                    variants.append(dict(kind='$', share=(0, ci), share_first=True))
            # shared nodes at two consecutive levels (the second grouping is over the first quotient)
            if len(prefix) >= 2:
                q1, _ = quotient(q0, prefix[1])
                cross1 = [c for _, _, d in sorted(q1.edges(data=True)) for c in d['cross']]
                for ci, (u, v, o) in enumerate(cross0):
                    for cj, (u1, v1, o1) in enumerate(cross1):
                        if o == 1 and o1 == 1:
                            variants.append(dict(kind='$', share=((0, ci), (1, cj))))
                            variants.append(dict(kind='$', share=((0, ci), (1, cj)), share_first=True))
            for var in variants:
                built = build_strings(g, names, prefix, atom_block, **var)
                if built is None:
                    continue
                layered, flat, nlev = built
                yield {'string': layered, 'flat': flat, 'all_atom': all_atom, 'levels': nlev, 'legacy': True,
                       'groups': [len(c) for c in prefix], 'variant': {k: v for k, v in var.items()}}
    R.add_explorer(ex)


def run_task(task, R):
    if task['kind'] == 'fraggrammar':
        return run_fraggrammar(task, R)
    if task['kind'] == 'fragdescr':
        return run_fragdescr(task, R)
    for inp in cases(task, R):
        R.record(inp, evaluate(inp))


def dump(g, all_atom):
    nodes = sorted((n, d.get('element') if all_atom else d.get('atomname'), d.get('fragname'), tuple(d.get('fragid', [])),
                    d.get('charge', 0) if all_atom else 0) for n, d in g.nodes(data=True))
    edges = sorted((min(a, b), max(a, b), d.get('order')) for a, b, d in g.edges(data=True))
    return nodes, edges


def iso_final(a, b, all_atom):
    key = 'element' if all_atom else 'atomname'
    return nx.is_isomorphic(a, b, node_match=lambda x, y: x.get(key) == y.get(key) and x.get('charge', 0) == y.get('charge', 0),
                            edge_match=lambda x, y: x.get('order') == y.get('order'))


def evaluate(inp):
    if inp.get('kind') == 'fraggrammar':
        return evaluate_fraggrammar(inp)
    if inp.get('kind') == 'fragdescr':
        return evaluate_fragdescr(inp)
    from cgsmiles import MoleculeResolver
    aa = inp['all_atom']
    nlev = inp['levels']
    nontrivial = any(g < 99 for g in inp.get('groups', [])) and nlev >= 2
    mk = lambda: MoleculeResolver.from_string(inp['string'], last_all_atom=aa)
    try:
        if '.{' in inp['flat']:
            flat_c, flat_f = MoleculeResolver.from_string(inp['flat'], last_all_atom=aa).resolve_all()
        else:
            # coarse bottom: the flattened description is the bottom graph itself
            from cgsmiles import read_cgsmiles
            flat_f = read_cgsmiles(inp['flat'])
            for n in flat_f.nodes:
                flat_f.nodes[n]['atomname'] = flat_f.nodes[n]['fragname']
    except Exception as e:
        return Verdict(skip=True, outcome='flattened-string-not-resolvable:' + type(e).__name__)
    # driver 1: repeated resolve with step invariants
    try:
        r = mk()
        if r.resolutions != nlev:
            return bad('levels', nlev, r.resolutions, nontrivial=nontrivial)
        prev_fine = None
        prev_obj = None
        steps = []
        for i in range(nlev):
            coarse, fine = r.resolve()
            last = aa and i == nlev - 1
            if prev_obj is not None:
                # the fine graph handed out by the previous step is what the caller still holds: it must describe the
                # same coarse level as the graph returned now (same nodes, same fine nodes carried by each node)
                held = {n: (d.get('fragname'), sorted(d['graph'].nodes) if d.get('graph') is not None else None)
                        for n, d in prev_obj.nodes(data=True)}
                now = {n: (d.get('fragname'), sorted(d['graph'].nodes) if d.get('graph') is not None else None)
                       for n, d in coarse.nodes(data=True)}
                if held != now:
                    diff = sorted(n for n in set(held) | set(now) if held.get(n) != now.get(n))[:4]
                    return bad('step-previous-fine-graph-left-inconsistent', None,
                               {'step': i, 'string': inp['string'], 'nodes': diff,
                                'held': [held.get(n) for n in diff], 'returned': [now.get(n) for n in diff]}, nontrivial=nontrivial)
            if prev_fine is not None:
                pn, pe = prev_fine
                cn = sorted((n, d.get('fragname')) for n, d in coarse.nodes(data=True))
                ce = sorted((min(a, b), max(a, b), d.get('order')) for a, b, d in coarse.edges(data=True))
                if cn != pn or ce != pe:
                    return bad('step-coarse-is-not-previous-fine', {'nodes': pn, 'edges': pe}, {'nodes': cn, 'edges': ce, 'step': i},
                               nontrivial=nontrivial)
            res = O.check_mapping(coarse, fine, r.fragment_dicts[i], last) or \
                O.check_bonds(coarse, fine, r.fragment_dicts[i], True, last) or \
                O.check_numbering(coarse, fine, last)
            if res:
                return bad('step-invariant:' + res[0], None, {'step': i, 'detail': res[1], 'string': inp['string']}, nontrivial=nontrivial)
            prev_fine = (sorted((n, d.get('atomname')) for n, d in fine.nodes(data=True)),
                         sorted((min(a, b), max(a, b), d.get('order')) for a, b, d in fine.edges(data=True)))
            steps.append(dump(fine, last))
            prev_obj = fine
        final1 = fine
        extra = None
        try:
            extra = r.resolve()
        except Exception:
            extra = None
        if extra is not None:
            return bad('resolve-after-last-level-returns', None, str(type(extra)), nontrivial=nontrivial)
    except Exception as e:
        return bad('raises:' + type(e).__name__, None, {'string': inp['string'], 'error': repr(e)[:200]}, nontrivial=nontrivial)
    if not iso_final(final1, flat_f, aa):
        return bad('final-differs-from-flattened', {'flat': inp['flat'], 'n': len(flat_f), 'edges': len(flat_f.edges)},
                   {'string': inp['string'], 'n': len(final1), 'edges': len(final1.edges)}, nontrivial=nontrivial)
    # drivers 2-4
    try:
        it = [dump(f, aa and i == nlev - 1) for i, (c, f) in enumerate(mk().resolve_iter())]
        allc, allf = mk().resolve_all()
    except Exception as e:
        return bad('driver-raises:' + type(e).__name__, None, {'string': inp['string'], 'error': repr(e)[:200]}, nontrivial=nontrivial)
    if it != steps:
        return bad('resolve_iter-differs', None, {'string': inp['string']}, nontrivial=nontrivial)
    if dump(allf, aa) != steps[-1]:
        return bad('resolve_all-differs', None, {'string': inp['string']}, nontrivial=nontrivial)
    return Verdict(nontrivial=nontrivial, outcome='%d/%d/%s' % (nlev, len(final1), inp.get('groups')))


def sanity(total, tier):
    return ['fewer than 10 distinct outcomes'] if len(total.outcomes) < 10 else []
