"""C05 — the multiplication operator is shorthand for writing the unit out.

The grammar transition system of C04 is extended by the multiplier token; every
complete shorthand sentence within the bound is rewritten by the reference
model R-mult into its longhand, both are read by the real reader and compared
(exactly for node multipliers, up to isomorphism otherwise) with each other and
with the reference denotation of the longhand."""
import networkx as nx
from ..core import Explorer, Verdict, bad
from ..gen import grammar as G
from . import c04

ID = 'C05'
RULE = ('States = token prefixes of the graph grammar with multiplier tokens |n after a node or after a '
        'branch (with optional bond symbol between ")" and "|"); every complete sentence with >=1 multiplier '
        'within the bound is expanded syntactically (R-mult) and read(shorthand) is compared with '
        'read(longhand) and with the denotation of the longhand. Non-trivial = some multiplier has n>=2.')
ASSUMPTIONS = [
    'R-mult: X|n = n copies joined by order 1, the first keeps the incoming bond, what follows attaches to the last copy; '
    'X b(chain) c|n = n copies of anchor+branch, consecutive anchors joined by c (default 1)',
    'excluded as undocumented/ambiguous: multiplied anchor with two or more branches, ring markers on or inside a multiplied unit, '
    'a branch opened directly after a node multiplier',
] + c04.ASSUMPTIONS[:1]
EXPLANATION = 'bounded-exhaustive enumeration of shorthand sentences; metamorphic + reference-model oracle on the real reader'


def spaces(tier, seed):
    sp = []
    if tier == 'quick':
        sp.append(('mult4', G.Bound(max_nodes=4, max_depth=2, max_open=1, max_rings=1, bonds=('=', '.'),
                                    ring_styles=('d',), mults=(1, 2, 3), max_mults=2, max_bonds=3), 4))
        sp.append(('mult3-nested', G.Bound(max_nodes=3, max_depth=3, max_open=0, max_rings=0, bonds=('=',),
                                           ring_styles=('d',), mults=(2, 3), max_mults=3), 3))
        sp.append(('mult3-annot', G.Bound(max_nodes=3, max_depth=1, max_open=0, max_rings=0, bonds=('=',),
                                          mults=(2,), max_mults=2, annots=['q=1', '0;0.5', 'k=ab']), 3))
    else:
        sp.append(('mult5', G.Bound(max_nodes=5, max_depth=2, max_open=1, max_rings=1, bonds=('=', '.'),
                                    ring_styles=('d',), mults=(1, 2, 3), max_mults=2, max_bonds=3), 5))
        sp.append(('mult4-nested', G.Bound(max_nodes=4, max_depth=3, max_open=0, max_rings=0, bonds=('=', '#'),
                                           ring_styles=('d',), mults=(2, 3), max_mults=3, max_bonds=3), 4))
        sp.append(('mult4-allsym', G.Bound(max_nodes=4, max_depth=2, max_open=0, max_rings=0, bonds=c04.ALL,
                                           mults=(2,), max_mults=2, max_bonds=3), 4))
        sp.append(('mult3-annot', G.Bound(max_nodes=3, max_depth=2, max_open=0, max_rings=0, bonds=('=',),
                                          mults=(2, 3), max_mults=2, annots=['q=1', '0;0.5', 'k=ab']), 3))
    pairs = [('=', '.'), ('#', '-'), ('$', '='), ('.', '#'), ('-', '$')]
    sp.append(('seed-slice', G.Bound(max_nodes=5, max_depth=1 + seed % 2, max_open=0, max_rings=0,
                                     bonds=pairs[seed % 5], mults=(2, 4 + seed % 3), max_mults=2, max_bonds=2), 4))
    return sp


def plan(tier, seed):
    tasks = []
    for name, B, k in spaces(tier, seed):
        bj = B.to_json()
        tasks.append({'space': name, 'bound': bj, 'root': None, 'k': k})
        for r in c04.roots(B, k):
            tasks.append({'space': name, 'bound': bj, 'root': r, 'k': k})
    return tasks


def run_task(task, R):
    B = G.Bound.from_json(task['bound'])
    ex = Explorer(dedup=False)
    if task['root'] is None:
        B.max_tokens = task['k'] - 1
        init = G.INIT
    else:
        init = task['root']
    for st in ex.run(init, lambda s: G.succ(s, B), G.complete):
        toks = st[0]
        if st[8] == 0:
            continue            # no multiplier: C04's business
        inp = {'s': G.ser(toks), 'tokens': toks}
        R.record(inp, evaluate(inp))
    R.add_explorer(ex)


def to_graph(exp_nodes, exp_edges):
    g = nx.Graph()
    for i, d in enumerate(exp_nodes):
        g.add_node(i, **d)
    for (a, b), o in exp_edges.items():
        g.add_edge(a, b, order=o)
    return g


def iso(g1, g2):
    return nx.is_isomorphic(g1, g2, node_match=lambda a, b: a == b,
                            edge_match=lambda a, b: a.get('order') == b.get('order'))


def evaluate(inp):
    from cgsmiles import read_cgsmiles
    tokens = tuple(tuple(t) for t in inp['tokens'])
    ast = G.parse(tokens)
    if not G.mult_units_ok(ast):
        return Verdict(skip=True, outcome='excluded-multiplied-unit-shape')
    long_toks = G.expand_mult(tokens)
    try:
        exp_nodes, exp_edges = c04.expected_graph(long_toks)
    except G.NotSimple:
        return Verdict(skip=True, outcome='longhand-not-a-simple-graph')
    long_s = G.ser(long_toks)
    only_node_mult = not any(t[0] == 'm' and tokens[i - 1][0] != 'n' for i, t in enumerate(tokens))
    nontrivial = any(t[0] == 'm' and t[1] >= 2 for t in tokens)
    expected = {'longhand': long_s, 'nodes': [d['fragname'] for d in exp_nodes], 'edges': sorted(exp_edges.items())}
    try:
        g_long = read_cgsmiles(long_s)
    except Exception as e:
        return bad('longhand-raises:' + type(e).__name__, expected, repr(e)[:200], nontrivial=nontrivial)
    if c04.compare(g_long, exp_nodes, exp_edges):
        # the longhand itself is misread: C04's finding, do not double count here
        return Verdict(skip=True, outcome='longhand-misread(C04)')
    try:
        g_short = read_cgsmiles(inp['s'])
    except Exception as e:
        return bad('raises:' + type(e).__name__, expected, repr(e)[:200], nontrivial=nontrivial)
    observed = {'nodes': [g_short.nodes[n].get('fragname') for n in sorted(g_short.nodes)],
                'edges': sorted((min(a, b), max(a, b), o) for a, b, o in g_short.edges(data='order'))}
    if only_node_mult:
        diff = c04.compare(g_short, exp_nodes, exp_edges)
        if diff:
            return bad('nodemult:' + diff[0], expected, observed, nontrivial=nontrivial)
    else:
        if sorted(g_short.nodes) != list(range(len(exp_nodes))):
            return bad('branchmult:keys', expected, observed, nontrivial=nontrivial)
        if not iso(g_short, g_long):
            n_ok = sorted(str(sorted(d.items())) for _, d in g_short.nodes(data=True)) == sorted(str(sorted(d.items())) for d in exp_nodes)
            e_ok = len(g_short.edges) == len(exp_edges)
            o_ok = sorted(o for _, _, o in g_short.edges(data='order')) == sorted(exp_edges.values())
            cls = 'branchmult:' + ('nodes' if not n_ok else 'edges' if not e_ok else 'orders' if not o_ok else 'wiring')
            return bad(cls, expected, observed, nontrivial=nontrivial)
    return Verdict(nontrivial=nontrivial, outcome='%d/%s' % (len(exp_nodes), sorted(exp_edges.values())))


def sanity(total, tier):
    out = []
    if len(total.outcomes) < 20:
        out.append('fewer than 20 distinct outcomes: exploration looks vacuous')
    return out


# ------------------------------------------------------------------ known findings
def _count_groups(chain):
    n = 0
    for u in chain:
        for _, sub in u['branches']:
            n += 1 + _count_groups(sub)
    return n


def _has_inner_bmult(chain):
    return any(u['has_bmult'] or any(_has_inner_bmult(s) for _, s in u['branches']) for u in chain)


def _has_ring(chain):
    return any(u['rings'] or any(_has_ring(s) for _, s in u['branches']) for u in chain)


def structure(tokens):
    """features of the multiplied branch units of a sentence"""
    feats = set()

    def walk(chain, inside):
        for u in chain:
            if u['has_bmult']:
                sub = u['branches'][0][1]
                if _has_inner_bmult(sub):
                    feats.add('bmult_in_bmult')
                if _count_groups(sub) >= 2:
                    feats.add('bmult_with_2plus_nested_groups')
                if _has_ring(sub):
                    feats.add('ring_in_bmult')
            for _, s in u['branches']:
                walk(s, inside or u['has_bmult'])
    walk(G.parse(tuple(tuple(t) for t in tokens)), False)
    return feats


def classify(viol, finding):
    sig = finding['signature']
    if not viol['cls'].startswith('branchmult:'):
        return False
    return sig['feature'] in structure(viol['input']['tokens'])
