"""C02 — the coarse-to-fine mapping is a faithful partition into fragment copies."""
from ..core import Verdict, bad
from ..ref import oracles as O
from . import _resolver as RS

ID = 'C02'
RULE = ('Base graph strings of the graph grammar (chains, branches, rings, multiplied units, repeated names) x every '
        'assignment of fragment templates (atomistic and coarse, internal rings, annotations, charged, explicit H, shared '
        'atoms) to the names x matching convention, enumerated completely within the bound; multi-level strings from the '
        'C06 generator are checked at every step. After every real resolve() the mapping invariants are evaluated: fragid '
        'lists, coarse graph node sets, cover, template copies (names/elements, internal bonds and orders, annotations, '
        'fragname). Non-trivial = at least 2 coarse nodes.')
ASSUMPTIONS = [
    'bond orders of a copy are compared modulo aromaticity perception (both atoms aromatic: 1, 1.5, 2 are interchangeable)',
    'on an atom shared through the squash operator names/annotations are only required to stem from one of its coarse nodes',
    'pysmiles refusing to kekulise an assembled molecule puts the input outside the domain (counted)',
]
EXPLANATION = 'bounded-exhaustive enumeration of base graph x fragment library, invariant evaluated after every real resolution step'


def plan(tier, seed):
    from . import c06
    return RS.plan(tier, seed) + c06.plan(tier, seed, for_invariants=True)


def check(coarse, fine, fd, aa, inp):
    return O.check_mapping(coarse, fine, fd, aa)


def run_task(task, R):
    if task.get('kind') == 'layered':
        from . import c06
        for inp in c06.cases(task, R):
            R.record(inp, evaluate(inp))
        return
    for inp in RS.cases(task, R):
        R.record(inp, evaluate(inp))


def evaluate(inp):
    return RS.run_invariant(inp, check)


def sanity(total, tier):
    return ['fewer than 20 distinct outcomes'] if len(total.outcomes) < 20 else []
