"""C18 — the RDKit bridge keeps chemistry and puts coordinates on the right atoms."""
import itertools
import math
import networkx as nx
from ..core import Explorer, Verdict, bad
from ..gen import molecules as M

ID = 'C18'
RULE = ('Molecules: resolved CGsmiles strings (single and multi fragment, shared atoms, rings, charged atoms, hydrogens '
        'interleaved by renumbering) and pysmiles-read molecules; configuration tree per molecule: node order (all permutations '
        'of the insertion order up to 5 atoms, 8 fixed permutations above: identity, reversed, hydrogens first, interleaved, '
        'rotations) x key relabeling (identity, offset, reversed keys) x RDKit embedding seed x weight pattern x translation. '
        'Oracles: (a) networkx->RDKit->networkx preserves element, charge, bond order and hydrogen count per atom, with and '
        'without a conformer; (b) after embedding every node has a finite 3-vector and every bond length lies within '
        '[0.70, 1.35] x the sum of covalent radii; (c) every bead sits at sum(w x)/sum(w) of exactly its own atoms and '
        'translating the atoms translates the beads by the same vector. Non-trivial = node order differs from sorted keys or weights differ from 1.')
ASSUMPTIONS = [
    'RDKit\'s embedding and UFF are pinned by seed and trusted; an embedding failure is inconclusive (counted), never a violation',
    'covalent radii table (H .31 C .76 N .71 O .66 F .57 P 1.07 S 1.05 Cl 1.02 Br 1.20 Na 1.66) with generous bounds',
]
EXPLANATION = 'bounded-exhaustive configuration enumeration (orderings, relabelings, weights, translations, pinned seeds) on the real bridge'

RAD = {'H': 0.31, 'C': 0.76, 'N': 0.71, 'O': 0.66, 'F': 0.57, 'P': 1.07, 'S': 1.05, 'Cl': 1.02, 'Br': 1.20, 'Na': 1.66}

STRINGS = [
    ('peo', '{[#OH][#PEO][#OH]}.{#PEO=[$]COC[$],#OH=[$]O}'),
    ('amide', '{[#A][#B]}.{#A=CC(=O)[$],#B=[$]NC}'),
    ('shared', '{[#A][#B]}.{#A=OC[!],#B=[!]CC}'),
    ('toluene', '{[#SC3]1[#TC5][#TC5]1}.{#SC3=Cc(c[!])c[!],#TC5=[!]ccc[!]}'),
    ('charged', '{[#A][#B]}.{#A=[$]CC[NH3+],#B=[$]CC(=O)[O-]}'),
    ('ring', '{[#A]}.{#A=C1CC1CO}'),
    ('nitrile', '{[#A][#B]}.{#A=CC[$],#B=[$]C#N}'),
    ('weights', '{[#A][#B]}.{#A=[O;0.5]([H;0.2])[C;0.1][$],#B=[$]C[C;2]O}'),
    ('benzene3', '{[#TC5]1[#TC5][#TC5]1}.{#TC5=[$]cc[$]}'),
    ('sulfone', '{[#A][#B]}.{#A=CS(=O)(=O)[$],#B=[$]C}'),
    # a system of three molecules (each is less than half of the atoms)
    ('three', '{[#A][#B].[#A][#B].[#A][#B]}.{#A=CC[$],#B=[$]O}'),
    # a single-atom molecule (counter ion) next to another molecule
    ('salt', '{[#NA].[#AC]}.{#NA=[Na+],#AC=CC(=O)[O-]}'),
]
SMILES = ['CCO', 'C1CCCCC1', 'c1ccccc1', 'CC(=O)[O-]', 'CCC[NH3+]', 'CCC#N', 'CCOC', 'CC(Cl)=C', 'C[N+](C)(C)C', 'OCC(O)CO']


def plan(tier, seed):
    q = tier == 'quick'
    tasks = []
    for name, s in STRINGS:
        tasks.append({'space': 'roundtrip', 'kind': 'roundtrip', 'source': ('cg', s)})
        for rs in ((1, 2) if q else (1, 2, 3, 4)):
            tasks.append({'space': 'embed', 'kind': 'embed', 'source': ('cg', s), 'rdseed': rs, 'nperm': 8})
            tasks.append({'space': 'forward-map', 'kind': 'fmap', 'source': ('cg', s), 'rdseed': rs})
    for s in SMILES:
        tasks.append({'space': 'roundtrip', 'kind': 'roundtrip', 'source': ('smi', s)})
        tasks.append({'space': 'embed', 'kind': 'embed', 'source': ('smi', s), 'rdseed': 1, 'nperm': 8})
    feats = sorted(M.FEATURE)
    for nm in (feats[::4] if q else feats):
        tasks.append({'space': 'feature-molecules', 'kind': 'roundtrip', 'source': ('molF', nm)})
        tasks.append({'space': 'feature-molecules', 'kind': 'embed', 'source': ('molF', nm), 'rdseed': 1, 'nperm': 8})
    names = sorted(M.SLICE)
    nm = names[seed % len(names)]
    tasks.append({'space': 'seed-slice', 'kind': 'embed', 'source': ('mol', nm), 'rdseed': 7 + seed, 'nperm': 6})
    tasks.append({'space': 'seed-slice', 'kind': 'roundtrip', 'source': ('mol', nm)})
    return tasks


def load(source):
    """returns (coarse or None, all-atom graph)"""
    from cgsmiles import MoleculeResolver
    import pysmiles
    kind, s = source
    if kind == 'cg':
        return MoleculeResolver.from_string(s).resolve_all()
    if kind == 'mol':
        return MoleculeResolver.from_string('{[#M]}.{#M=%s}' % M.uncut_smiles(M.SLICE[s])).resolve_all()
    if kind == 'molF':
        return MoleculeResolver.from_string('{[#M]}.{#M=%s}' % M.uncut_smiles(M.FEATURE[s])).resolve_all()
    return None, pysmiles.read_smiles(s, explicit_hydrogen=True)


def orderings(g, nperm):
    nodes = list(g.nodes)
    n = len(nodes)
    keys = sorted(nodes)
    hs = [x for x in keys if g.nodes[x].get('element') == 'H']
    heavy = [x for x in keys if g.nodes[x].get('element') != 'H']
    cands = [nodes, keys, keys[::-1], hs + heavy, [x for pair in itertools.zip_longest(heavy, hs) for x in pair if x is not None],
             keys[n // 2:] + keys[:n // 2], keys[1::2] + keys[0::2], heavy[::-1] + hs]
    if n <= 5:
        cands = [list(p) for p in itertools.permutations(keys)]
    out = []
    for c in cands:
        if c not in out:
            out.append(c)
    return out[:max(nperm, 1)] if n > 5 else out


def reorder(g, order, relabel):
    keymap = {'id': lambda k: k, 'offset': lambda k: 10 + 3 * k, 'revkeys': lambda k: max(order) - k}[relabel]
    h = nx.Graph()
    for k in order:
        h.add_node(keymap(k), **dict(g.nodes[k]))
    for a, b, d in g.edges(data=True):
        h.add_edge(keymap(a), keymap(b), **dict(d))
    return h, keymap


def pin_rdkit(seed):
    import cgsmiles.rdkit as cr
    from rdkit.Chem import AllChem as real

    class Shim:
        def __getattr__(self, name):
            return getattr(real, name)

        def EmbedMolecule(self, mol, *a, **kw):
            kw.setdefault('randomSeed', seed)
            return real.EmbedMolecule(mol, *a, **kw)
    cr.AllChem = Shim()


def hsum(g, n):
    return sum(1 for x in g[n] if g.nodes[x].get('element') == 'H') + int(g.nodes[n].get('hcount', 0) or 0)


def run_task(task, R):
    coarse, aa = load(tuple(task['source']))
    ex = Explorer(dedup=False)
    kind = task['kind']
    if kind == 'roundtrip':
        for oi, order in enumerate(orderings(aa, 8)):
            for rl in ('id', 'offset', 'revkeys'):
                for conf in (False, True):
                    ex.states += 1
                    ex.transitions += 1
                    inp = {'kind': 'roundtrip', 'source': task['source'], 'order': order, 'relabel': rl, 'conformer': conf}
                    R.record(inp, evaluate(inp))
    elif kind == 'embed':
        for oi, order in enumerate(orderings(aa, task['nperm'])):
            for rl in ('id', 'offset'):
                ex.states += 1
                ex.transitions += 1
                inp = {'kind': 'embed', 'source': task['source'], 'order': order, 'relabel': rl, 'rdseed': task['rdseed']}
                R.record(inp, evaluate(inp))
    else:
        for wp in ('ones', 'halves', 'mixed', 'heavy-only'):
            for tr in ((0, 0, 0), (10, 0, 0), (-3, 7, 2)):
                for via in ('given-positions', 'embedded'):
                    ex.states += 1
                    ex.transitions += 1
                    inp = {'kind': 'fmap', 'source': task['source'], 'weights': wp, 'translation': tr, 'via': via, 'rdseed': task['rdseed']}
                    R.record(inp, evaluate(inp))
    R.add_explorer(ex)


def evaluate(inp):
    import numpy as np
    import cgsmiles.rdkit as cr
    from cgsmiles.coordinates import forward_map_molecule, embedd_cg_molecule_via_rdkit
    from rdkit import Chem
    from rdkit.Chem import AllChem
    coarse, aa = load(tuple(inp['source']))
    if inp['kind'] == 'roundtrip':
        g, keymap = reorder(aa, inp['order'], inp['relabel'])
        nontrivial = list(g.nodes) != sorted(g.nodes)
        try:
            mol = cr.networkx_to_rdkit(g)
            if inp['conformer']:
                mol = Chem.AddHs(mol)
                if AllChem.EmbedMolecule(mol, randomSeed=11) != 0:
                    return Verdict(skip=True, outcome='embedding-failed')
            back = cr.rdkit_to_networkx(mol)
        except Exception as e:
            return bad('roundtrip-raises:' + type(e).__name__, None, {'error': repr(e)[:150], 'conformer': inp['conformer']}, nontrivial=nontrivial)
        gm = nx.isomorphism.GraphMatcher(
            g, back, node_match=lambda a, b: a.get('element') == b.get('element') and a.get('charge', 0) == b.get('charge', 0),
            edge_match=lambda a, b: a.get('order', 1) == b.get('order', 1))
        ok = False
        for m in gm.isomorphisms_iter():
            if all(hsum(g, n) == hsum(back, m[n]) for n in g if g.nodes[n].get('element') != 'H'):
                ok = True
                break
        if not ok:
            cls = 'roundtrip-differs'
            if not nx.is_isomorphic(g, back):
                cls += ':connectivity'
            elif not nx.is_isomorphic(g, back, node_match=lambda a, b: a.get('element') == b.get('element') and a.get('charge', 0) == b.get('charge', 0)):
                cls += ':element-or-charge'
            elif gm.is_isomorphic():
                cls += ':hydrogen-count'
            else:
                cls += ':bond-order'
            return bad(cls, None, {'source': inp['source']}, nontrivial=nontrivial)
        if not inp['conformer']:
            # history: the same graph object is edited in place (no atom or bond added) and converted again
            swap = {'O': 'S', 'N': 'P'}
            tgt = [n for n, d in g.nodes(data=True) if d.get('element') in swap and not d.get('charge', 0) and not d.get('aromatic')]
            if tgt:
                g.nodes[tgt[0]]['element'] = swap[g.nodes[tgt[0]]['element']]
                try:
                    back2 = cr.rdkit_to_networkx(cr.networkx_to_rdkit(g))
                except Exception as e:
                    return bad('history:second-conversion-raises:' + type(e).__name__, None, {'error': repr(e)[:150]}, nontrivial=nontrivial)
                want = sorted(d.get('element') for _, d in g.nodes(data=True) if d.get('element') != 'H')
                got = sorted(d.get('element') for _, d in back2.nodes(data=True) if d.get('element') != 'H')
                if want != got:
                    return bad('history:conversion-after-an-in-place-edit-returns-the-old-molecule', want, {'elements': got, 'source': inp['source']},
                               nontrivial=nontrivial)
        if inp['conformer']:
            for n, d in back.nodes(data=True):
                p = d.get('position')
                if p is None or len(p) != 3 or not all(math.isfinite(float(x)) for x in p):
                    return bad('roundtrip-position-missing', None, {'node': n}, nontrivial=nontrivial)
        return Verdict(nontrivial=nontrivial, outcome='rt:%d:%s' % (len(g), inp['conformer']))
    if inp['kind'] == 'embed':
        g, keymap = reorder(aa, inp['order'], inp['relabel'])
        nontrivial = list(g.nodes) != sorted(g.nodes) or inp['relabel'] != 'id'
        pin_rdkit(inp['rdseed'])
        try:
            cr.embed_3d_via_rdkit(g)
        except ValueError as e:
            if 'Bad Conformer Id' in str(e):
                return Verdict(skip=True, outcome='embedding-failed')
            return bad('embed-raises:' + type(e).__name__, None, {'error': repr(e)[:150]}, nontrivial=nontrivial)
        except Exception as e:
            return bad('embed-raises:' + type(e).__name__, None, {'error': repr(e)[:150]}, nontrivial=nontrivial)
        for n, d in g.nodes(data=True):
            p = d.get('position')
            if p is None or len(p) != 3 or not all(math.isfinite(float(x)) for x in p):
                return bad('position-missing', None, {'node': n}, nontrivial=nontrivial)
        for a, b, d in g.edges(data=True):
            if d.get('order', 1) == 0:
                continue
            ea, eb = g.nodes[a].get('element'), g.nodes[b].get('element')
            if ea not in RAD or eb not in RAD:
                continue
            dist = float(np.linalg.norm(g.nodes[a]['position'] - g.nodes[b]['position']))
            ref = RAD[ea] + RAD[eb]
            if not (0.70 * ref <= dist <= 1.35 * ref):
                return bad('bonded-atoms-not-at-bonding-distance', [round(0.7 * ref, 2), round(1.35 * ref, 2)],
                           {'bond': (a, b), 'elements': (ea, eb), 'distance': round(dist, 3)}, nontrivial=nontrivial)
        return Verdict(nontrivial=nontrivial, outcome='emb:%d' % len(g))
    # forward mapping
    wp = inp['weights']
    rng_vals = {'ones': lambda i, el: 1.0, 'halves': lambda i, el: 0.5, 'mixed': lambda i, el: (0.5, 1.0, 2.0)[i % 3],
                'heavy-only': lambda i, el: 0.0 if el == 'H' else 1.0}[wp]
    for i, n in enumerate(sorted(aa.nodes)):
        w = rng_vals(i, aa.nodes[n].get('element'))
        aa.nodes[n]['weight'] = w
        for k in coarse.nodes:
            gk = coarse.nodes[k].get('graph')
            if gk is not None and n in gk.nodes:
                gk.nodes[n]['weight'] = w
    nontrivial = wp != 'ones'
    tr = np.array(inp['translation'], dtype=float)
    try:
        if inp['via'] == 'embedded':
            pin_rdkit(inp['rdseed'])
            embedd_cg_molecule_via_rdkit(coarse, aa)
        else:
            for i, n in enumerate(sorted(aa.nodes)):
                aa.nodes[n]['position'] = np.array([1.3 * i, 0.7 * (i % 3), -0.4 * (i % 5)], dtype=float)
            forward_map_molecule(coarse, aa)
    except ValueError as e:
        if 'Bad Conformer Id' in str(e):
            return Verdict(skip=True, outcome='embedding-failed')
        return bad('fmap-raises:ValueError', None, {'error': repr(e)[:150]}, nontrivial=nontrivial)
    except Exception as e:
        return bad('fmap-raises:' + type(e).__name__, None, {'error': repr(e)[:150]}, nontrivial=nontrivial)

    def expected_bead(k):
        own = [n for n in aa.nodes if k in aa.nodes[n].get('fragid', [])]
        ws = sum(aa.nodes[n]['weight'] for n in own)
        if ws == 0:
            return None
        return sum(aa.nodes[n]['position'] * aa.nodes[n]['weight'] for n in own) / ws
    before = {}
    for k in coarse.nodes:
        want = expected_bead(k)
        got = coarse.nodes[k].get('position')
        if want is None:
            continue
        if got is None or not np.allclose(got, want, atol=1e-9):
            return bad('bead-not-at-weighted-average-of-own-atoms', [round(float(x), 4) for x in want],
                       {'bead': k, 'got': None if got is None else [round(float(x), 4) for x in got], 'weights': wp}, nontrivial=nontrivial)
        before[k] = np.array(got, dtype=float)
    for n in aa.nodes:
        aa.nodes[n]['position'] = aa.nodes[n]['position'] + tr
    forward_map_molecule(coarse, aa)
    for k, p0 in before.items():
        if not np.allclose(coarse.nodes[k]['position'], p0 + tr, atol=1e-9):
            return bad('beads-do-not-follow-translation', [float(x) for x in (p0 + tr)],
                       {'bead': k, 'got': [float(x) for x in coarse.nodes[k]['position']]}, nontrivial=nontrivial)
    return Verdict(nontrivial=nontrivial, outcome='fmap:%s:%d' % (wp, len(coarse)))


def sanity(total, tier):
    return ['fewer than 8 distinct outcomes'] if len(total.outcomes) < 8 else []
