"""C01 — cutting a molecule into fragments and resolving gives the molecule back.

Derivation exploration: molecules are enumerated by growth (explicit-state
search with canonical-form de-duplication), then for every molecule the
decision tree  partition -> descriptor kinds -> fragment order -> start atoms ->
rendering style -> constructor  is enumerated completely; every leaf is
resolved by the real MoleculeResolver and compared with the molecule model and
with the resolution of the uncut molecule."""
import itertools
import json
from ..core import Explorer, Verdict, bad
from ..gen import molecules as M

ID = 'C01'
RULE = ('Molecules: all canonical molecules reachable by growth (add atom with bond order 1-3 / close ring) within the '
        'valence table up to the heavy-atom bound, plus a fixed list of feature molecules (charged, hypervalent, rings, '
        'aromatic templates); for each molecule the complete decision tree partition x descriptor kinds x fragment order '
        'x start atom per fragment x rendering style x constructor is enumerated (a state = decision prefix). Each leaf is '
        'resolved on the real code and compared with the molecule model (iso on element/charge/order + R-valence hydrogens) '
        'and with the resolution of the uncut molecule. Non-trivial = at least one cut bond.')
ASSUMPTIONS = [
    'R-valence table (mc/gen/molecules.py:VAL) is the usual valence of element+charge; hydrogens = smallest allowed valence >= bond order sum',
    'molecules whose uncut single-fragment resolution raises (pysmiles refuses to kekulise) are outside the domain and counted',
    'for non-aromatic-template molecules with a multiple bond in a ring, bond orders are compared with the uncut resolution '
    '(aromaticity perception by pysmiles is applied to both) rather than with the model',
    'the renderer writes valid SMILES; validated per molecule by the uncut resolution matching the model',
]
EXPLANATION = 'bounded-exhaustive derivation exploration of molecule x cut x rendering, executed on the real resolver'

ELEMS_FULL = (('C', 0), ('N', 0), ('O', 0), ('S', 0), ('P', 0), ('F', 0), ('Cl', 0), ('Br', 0), ('N', 1), ('O', -1))
ELEMS_4 = (('C', 0), ('N', 0), ('O', 0), ('Cl', 0))
ELEMS_5 = (('C', 0), ('N', 0), ('O', 0), ('S', 0), ('Cl', 0))

STYLES_FULL = [dict(branch=b, ring_scheme=r, descr_pos=d, lead=l, brackets=False)
               for b in ('asc', 'desc') for r in ('1', '%') for d in ('after', 'before') for l in (False, True)]
STYLES_FULL.append(dict(branch='asc', ring_scheme='5', descr_pos='after', lead=False, brackets=True))
STYLES_LITE = [dict(branch='asc', ring_scheme='1', descr_pos='after', lead=False, brackets=False),
               dict(branch='desc', ring_scheme='%', descr_pos='before', lead=True, brackets=False),
               dict(branch='desc', ring_scheme='5', descr_pos='after', lead=False, brackets=True),
               dict(branch='asc', ring_scheme='1', descr_pos='before', lead=True, brackets=False)]


def enumerate_molecules(elements, max_atoms, R=None):
    ex = Explorer(dedup=True)
    inits = [((el,), ()) for el in elements]
    mols = []
    root = ('root',)

    def succ(s):
        if s == root:
            return inits
        return M.grow_succ(s, elements, max_atoms)
    for s in ex.run(root, succ, lambda s: s != root):
        mols.append(M.state_to_mol(s))
    return mols, ex


ELEMS_3 = (('C', 0), ('N', 0), ('O', 0))


def plan(tier, seed):
    tasks = []
    q = tier == 'quick'
    fams = []
    if q:
        fams.append(('grow2-full', ELEMS_FULL, 2, 'full', 4))
        fams.append(('grow3-full', ELEMS_FULL, 3, 'lite2', 4))
        fams.append(('grow4-CNO', ELEMS_3, 4, 'lite3', 4))
    else:
        fams.append(('grow2-full', ELEMS_FULL, 2, 'full', 4))
        fams.append(('grow3-full', ELEMS_FULL, 3, 'lite', 4))
        fams.append(('grow4-CNOCl', ELEMS_4, 4, 'lite2', 4))
        fams.append(('grow5-CO', (('C', 0), ('O', 0)), 5, 'lite2', 4))
    for name, elems, n, level, maxfrag in fams:
        mols, ex = enumerate_molecules(elems, n)
        chunk = 12 if level in ('lite2', 'lite3') else 3
        for i in range(0, len(mols), chunk):
            tasks.append({'space': name, 'mols': mols[i:i + chunk], 'level': level, 'max_frag': maxfrag,
                          'pre': (ex.states, ex.transitions) if i == 0 else (0, 0)})
    feat = sorted(M.FEATURE)
    for nm in feat:
        mol = M.FEATURE[nm]
        big = len(mol['atoms']) >= 8
        if q:
            parts = M.partitions(mol, max_frag=2 if big else 3)
            level = 'lite2' if len(mol['atoms']) >= 6 else 'lite'
        else:
            parts = M.partitions(mol, max_frag=3 if big else 4)
            level = 'lite2' if len(mol['atoms']) >= 8 else 'lite' if len(mol['atoms']) >= 5 else 'full'
        step = 6 if q else 4
        for i in range(0, len(parts), step):
            tasks.append({'space': 'feature', 'mols': [mol], 'name': nm, 'level': level,
                          'parts': parts[i:i + step], 'pre': (0, 0)})
    # hubs: a fragment with >= 3 neighbour fragments one of which is reached by two cut bonds (the base graph string
    # then carries a bond order in front of a second branch)
    for nm in ('dimethylcyclobutane', 'spiro', 'methylenecyclopentane'):
        mol = M.FEATURE[nm]
        parts = []
        for p in M.partitions(mol, max_frag=5):
            if len(p) < 4:
                continue
            owner = {a: i for i, c in enumerate(p) for a in c}
            cnt = {}
            for a, b, o in mol['bonds']:
                if owner[a] != owner[b]:
                    k = (min(owner[a], owner[b]), max(owner[a], owner[b]))
                    cnt[k] = cnt.get(k, 0) + 1
            if cnt and max(cnt.values()) >= 2:
                parts.append(p)
        for i in range(0, len(parts), 3):
            tasks.append({'space': 'hubs', 'mols': [mol], 'name': nm, 'level': 'hub', 'parts': parts[i:i + 3], 'pre': (0, 0)})
    names = sorted(M.SLICE)
    for j in range(3):
        nm = names[(seed * 3 + j) % len(names)]
        mol = M.SLICE[nm]
        parts = M.partitions(mol, max_frag=3 if q else 4)
        for i in range(0, len(parts), 8):
            tasks.append({'space': 'seed-slice', 'mols': [mol], 'name': nm, 'level': 'lite2',
                          'parts': parts[i:i + 8], 'pre': (0, 0)})
    return tasks


def orders_for(k, level):
    if k <= 1:
        return [tuple(range(k))]
    if level == 'hub':
        return list(itertools.permutations(range(k))) if k <= 4 else list(itertools.permutations(range(k)))[::7]
    if level == 'full' and k <= 4:
        return list(itertools.permutations(range(k)))
    ident = tuple(range(k))
    rev = tuple(reversed(ident))
    rot = ident[1:] + ident[:1]
    return [ident, rev] if level in ('lite2', 'lite3') else [ident, rev, rot] if k > 2 else [ident, rev]


def kinds_for(ncut, level):
    if ncut == 0:
        return [('$',)]
    if level == 'full' and ncut <= 3:
        return list(itertools.product('$>', repeat=ncut))
    if level == 'hub':
        return [('$',)]
    return [('$',), ('>',), ('$', '<')] if level not in ('lite2', 'lite3') else [('$',), ('>', '<')]


def leaves(mol, comps, level):
    """decision tree below one partition, as an Explorer transition system over decision prefixes"""
    ncut = M.n_cuts(mol, comps)
    k = len(comps)
    styles = STYLES_FULL if level == 'full' else STYLES_LITE if level == 'lite' else STYLES_LITE[:2] if level != 'hub' else STYLES_LITE[:1]
    if any(a[2] for a in mol['atoms']) and any(o == 1.5 and not any(a in c and b in c for c in comps) for a, b, o in mol['bonds']):
        # a cut aromatic bond may also be annotated with the aromatic bond symbol on its descriptors
        styles = styles + [dict(STYLES_LITE[0], colon=True)]
    levels = [kinds_for(ncut, level), orders_for(k, level)]
    for c in comps:
        levels.append(list(c) if level not in ('lite2', 'lite3', 'hub') else [c[0], c[-1]] if (len(c) > 1 and level == 'lite2') else [c[-1] if level == 'lite3' else c[0]])
    levels.append(list(range(len(styles))))
    levels.append(['string'] if level == 'hub' else ['graph', 'string', 'graph-rev', 'dicts-rev'] if level not in ('lite2', 'lite3') else ['graph'])

    def succ(prefix):
        d = len(prefix)
        if d == len(levels):
            return []
        return [prefix + (o,) for o in levels[d]]
    return succ, (lambda p: len(p) == len(levels)), styles


def run_task(task, R):
    ex_total = Explorer(dedup=False)
    ex_total.states += task['pre'][0]
    ex_total.transitions += task['pre'][1]
    for mol in task['mols']:
        parts = task.get('parts')
        if parts is None:
            parts = M.partitions(mol, max_frag=task.get('max_frag'))
        for comps in parts:
            comps = tuple(tuple(c) for c in comps)
            succ, term, styles = leaves(mol, comps, task['level'])
            ex = Explorer(dedup=False)
            for leaf in ex.run((), succ, term):
                k = len(comps)
                inp = {'mol': mol, 'comps': comps, 'kinds': leaf[0], 'order': leaf[1], 'starts': leaf[2:2 + k],
                       'style': styles[leaf[2 + k]], 'via': leaf[3 + k]}
                R.record(inp, evaluate(inp))
            ex_total.states += ex.states
            ex_total.transitions += ex.transitions
    R.add_explorer(ex_total)


_REF = {}


def reference(mol):
    """resolution of the uncut molecule given as a single fragment (None if outside the domain)"""
    key = json.dumps(mol, sort_keys=True)
    if key not in _REF:
        from cgsmiles import MoleculeResolver
        s = '{[#M]}.{#M=%s}' % M.uncut_smiles(mol)
        try:
            _, aa = MoleculeResolver.from_string(s).resolve_all()
        except Exception as e:
            aa = None
        if len(_REF) > 200:
            _REF.clear()
        _REF[key] = aa
    return _REF[key]


def build(inp):
    mol = inp['mol']
    comps = [tuple(c) for c in inp['comps']]
    st = inp['style']
    descr, cnt = M.cut_descriptors(mol, comps, inp['kinds'], colon=st.get('colon', False))
    hc = M.model_hcounts(mol)
    frags = []
    for i, c in enumerate(comps):
        txt = M.render_fragment(mol, c, descr, inp['starts'][i], branch=st['branch'], ring_scheme=st['ring_scheme'],
                                descr_pos=st['descr_pos'], lead=st['lead'], brackets=st['brackets'], hcounts=hc)
        frags.append('#F%d=%s' % (i, txt))
    fragstr = '{' + ','.join(frags) + '}'
    B = M.base_graph(len(comps), cnt, inp['order'])
    return B, fragstr


def resolve(inp):
    from cgsmiles import MoleculeResolver
    B, fragstr = build(inp)
    if inp['via'] == 'string':
        s, _ = M.base_string(B)
        if s is None:
            return None, None, fragstr
        full = s + '.' + fragstr
        cg, aa = MoleculeResolver.from_string(full).resolve_all()
        return cg, aa, full
    if inp['via'] == 'dicts-rev':
        # third constructor with fragment graphs that list their nodes and edges in reverse order (graphs that come
        # from elsewhere need not be built in ascending key order)
        import networkx as nx
        from cgsmiles.read_fragments import read_fragments
        s, _ = M.base_string(B)
        if s is None:
            return None, None, fragstr
        lib = read_fragments(fragstr)
        lib_r = {}
        for name, g in lib.items():
            h = nx.Graph()
            for n_ in reversed(list(g.nodes)):
                h.add_node(n_, **g.nodes[n_])
            for a_, b_, d_ in reversed(list(g.edges(data=True))):
                h.add_edge(b_, a_, **d_)
            lib_r[name] = h
        cg, aa = MoleculeResolver.from_fragment_dicts(s, [lib_r]).resolve_all()
        return cg, aa, 'dicts(reversed node order) ' + s + '.' + fragstr
    if inp['via'] == 'graph-rev':
        # same graph, nodes and edges inserted in reverse order (iteration order != key order)
        import networkx as nx
        B2 = nx.Graph()
        for n in sorted(B.nodes, reverse=True):
            B2.add_node(n, **B.nodes[n])
        for a, b, d in sorted(B.edges(data=True), reverse=True):
            B2.add_edge(b, a, **d)
        B = B2
    cg, aa = MoleculeResolver.from_graph(fragstr, B).resolve_all()
    return cg, aa, 'graph%s%s+%s' % ('(reversed insertion)' if inp['via'] == 'graph-rev' else '', sorted(B.edges(data='order')), fragstr)


_CURATED = None


def curated(mol):
    """hand-written molecules (feature / slice tables): valid by construction, so a rejected or different uncut
    resolution is a violation there and not a reason to skip"""
    global _CURATED
    if _CURATED is None:
        _CURATED = {json.dumps(json.loads(json.dumps(m)), sort_keys=True) for m in list(M.FEATURE.values()) + list(M.SLICE.values())}
    return json.dumps(json.loads(json.dumps(mol)), sort_keys=True) in _CURATED


def evaluate(inp):
    mol = inp['mol']
    ref = reference(mol)
    if ref is None:
        if curated(mol):
            return bad('uncut-molecule-rejected', {'mol': mol}, {'string': '{[#M]}.{#M=%s}' % M.uncut_smiles(mol)})
        return Verdict(skip=True, outcome='uncut-molecule-not-resolvable')
    ncut = M.n_cuts(mol, [tuple(c) for c in inp['comps']])
    nontrivial = ncut > 0
    aromatic = any(a[2] for a in mol['atoms'])
    strict = aromatic or not M.has_conjugated_ring(mol)
    # the renderer / model itself is validated on the uncut molecule
    rcls = M.compare_with_model(mol, ref, strict_orders=strict)
    if rcls is not None:
        if curated(mol):
            return bad('uncut-molecule:model:' + rcls, {'mol': mol}, {'string': '{[#M]}.{#M=%s}' % M.uncut_smiles(mol)})
        return Verdict(skip=True, outcome='uncut-molecule-differs-from-model:' + rcls)
    try:
        cg, aa, text = resolve(inp)
    except Exception as e:
        B, fragstr = build(inp)
        return bad('raises:' + type(e).__name__, None, {'string': fragstr, 'error': repr(e)[:200]}, nontrivial=nontrivial)
    if aa is None:
        return Verdict(skip=True, outcome='base-graph-not-writable')
    cls = M.compare_with_model(mol, aa, strict_orders=strict)
    if cls is not None:
        H = M.heavy_subgraph(aa)
        return bad('model:' + cls, {'mol': mol}, {'string': text, 'heavy_edges': sorted(H.edges(data='order')),
                                                   'n_atoms': len(aa)}, nontrivial=nontrivial)
    if not M.same_molecule(aa, ref):
        return bad('differs-from-uncut', {'mol': mol}, {'string': text, 'n_atoms': len(aa), 'n_ref': len(ref)},
                   nontrivial=nontrivial)
    return Verdict(nontrivial=nontrivial, outcome='%d/%d/%d' % (len(mol['atoms']), len(inp['comps']), len(aa)))


def classify(viol, finding):
    """C01-K1: a cut bond at an aromatic nitrogen written with its hydrogen ([nH])"""
    sig = finding['signature']
    if viol['cls'] not in sig['cls_in']:
        return False
    inp = viol['input']
    mol = inp.get('mol') or {}
    nh = set(mol.get('arom_h') or ())
    if not nh or 'comps' not in inp:
        return False
    owner = {a: i for i, c in enumerate(inp['comps']) for a in c}
    return any((a in nh or b in nh) and owner[a] != owner[b] for a, b, _ in mol['bonds'])


def sanity(total, tier):
    return ['fewer than 20 distinct outcomes'] if len(total.outcomes) < 20 else []
