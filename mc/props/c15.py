"""C15 — stereo information survives fragmentation and renumbering.

Molecule family with one stereo double bond (ligands F / Cl written in every
position form) or a labelled stereocentre; cut placements x fragment orders x
descriptor kinds enumerated completely.  The slash marks of a variant are not
hand written: for every written form the marks that give the intended relation
are determined on the UNCUT text by pysmiles.read_smiles (renderer validation),
then the same text is cut."""
import itertools
import networkx as nx
from ..core import Explorer, Verdict, bad

ID = 'C15'
RULE = ('Stereo double bond family: ligand position forms (ligand before anchor, ligand in a branch, with / without further '
        'substituent) on both sides x intended relation (cis / trans) x slash marks (all mark pairs that pysmiles reads as the '
        'intended relation on the uncut text) x cut placement (none, at the double bond, at a single bond elsewhere on either '
        'side, both, at the ligand bond) x every order of the fragments in the base graph x descriptor kind; every cut case again '
        'with a disconnected spectator copy of each fragment listed first / last (a fragment name that reappears in the base graph); '
        'ligand forms with an explicitly written hydrogen as the marked substituent. Stereocentre family: '
        'labelled centre (x=R|S, positional and keyword) x every set of cuts around it x fragment orders. Oracle: the recorded '
        'relation between F and Cl equals the intended one; every stored 4-path exists with a double bond in the middle; the '
        'chirality label sits on the atom with the right neighbourhood and nowhere else. Non-trivial = at least one cut.')
ASSUMPTIONS = [
    'pysmiles.read_smiles on the uncut SMILES defines which slash marks encode cis / trans (OpenSMILES rule)',
    'ligands are identified by element (F, Cl occur once)',
]
EXPLANATION = 'bounded-exhaustive enumeration of stereo molecules x cuts x fragment orders on the real resolver'

LEFT = {
    'first': ('F{t}C', None),                 # ligand written before the anchor
    'branch': ('C({t}F)', None),              # anchor, ligand in a branch
    'chain-branch': ('CC({t}F)', 'C|C({t}F)'),   # methyl - anchor(ligand); '|' marks a cut point "elsewhere"
    'ethyl-first': ('F{t}C(CC)', None),
    'S-aryl-branch': ('CSc1ccccc1C({t}F)', 'CSc1ccccc1|C({t}F)'),
    'branch-bracket': ('C({t}[F])', None),      # the mark is directly followed by a bracket atom
    # the marked substituent is an explicitly written hydrogen atom (the relation is then stated between H and Cl)
    'H-first': ('[H]{t}C(F)', None),
    'H-branch': ('FC({t}[H])', None),
}
RIGHT = {
    'after': ('C{t}Cl', None),
    'branch': ('C({t}Cl)C', None),
    'branch-tail': ('C({t}Cl)CC', 'C({t}Cl)C|C'),
    'tail-first': ('C(CC){t}Cl', 'C(C|C){t}Cl'),
    'after-bracket': ('C{t}[Cl]', None),
}
TOK = ('/', '\\')


def uncut(lf, rf, tl, tr):
    return LEFT[lf][0].format(t=tl) + '=' + RIGHT[rf][0].format(t=tr)


def ligand(lf):
    return 'H' if lf.startswith('H-') else 'F'


def relation_by_pysmiles(smiles, lig='F'):
    import pysmiles
    g = pysmiles.read_smiles(smiles, explicit_hydrogen=True)
    rels = set()
    for n, d in g.nodes(data=True):
        for entry in d.get('ez_isomer', []) or []:
            ends = {g.nodes[entry[0]]['element'], g.nodes[entry[3]]['element']}
            if ends == {lig, 'Cl'}:
                rels.add(entry[4])
    return rels.pop() if len(rels) == 1 else None


def variants():
    """(lform, rform, relation, tokL, tokR) with marks validated on the uncut text"""
    out = []
    for lf in LEFT:
        for rf in RIGHT:
            for tl in TOK:
                for tr in TOK:
                    rel = relation_by_pysmiles(uncut(lf, rf, tl, tr), ligand(lf))
                    if rel in ('cis', 'trans'):
                        out.append((lf, rf, rel, tl, tr))
    return out


def relations_by_pysmiles(smiles):
    """{frozenset of the two ligand elements: 'cis'|'trans'} for halogen ligand pairs"""
    import pysmiles
    g = pysmiles.read_smiles(smiles, explicit_hydrogen=True)
    out = {}
    for n, d in g.nodes(data=True):
        for entry in d.get('ez_isomer', []) or []:
            a, b = g.nodes[entry[0]]['element'], g.nodes[entry[3]]['element']
            if a in ('F', 'Cl', 'Br', 'I') and b in ('F', 'Cl', 'Br', 'I'):
                out[frozenset((a, b))] = entry[4]
    return out


DIENE_LEFT = ('first', 'branch', 'chain-branch')


def diene_text(lf, marks, cuts=(), kind='$'):
    """two stereo double bonds joined by a C-C linker: <left form with F> = C(/Cl)C | C C(/Br)=C/I ;
    marks = (t1, t2, t3, t4); cuts subset of {'db1', 'linker', 'db2'}; returns list of fragment texts + bonds"""
    t1, t2, t3, t4 = marks
    lab = iter('abc')

    def pair():
        L = next(lab)
        return ('[$%s]' % L, '[$%s]' % L) if kind == '$' else ('[>%s]' % L, '[<%s]' % L)
    frs = ['']
    bonds = []

    def cut_here(sym=''):
        d1, d2 = pair()
        frs[-1] += sym + d1
        frs.append(d2 + sym)
        bonds.append((len(frs) - 2, len(frs) - 1))
    frs[-1] += LEFT[lf][0].format(t=t1)
    if 'db1' in cuts:
        cut_here('=')
    else:
        frs[-1] += '='
    frs[-1] += 'C(%sCl)C' % t2
    if 'linker' in cuts:
        cut_here('')
    frs[-1] += 'CC(%sBr)' % t3
    if 'db2' in cuts:
        cut_here('=')
    else:
        frs[-1] += '='
    frs[-1] += 'C%sI' % t4
    return frs, bonds


def diene_variants():
    out = []
    for lf in DIENE_LEFT:
        for marks in itertools.product(TOK, repeat=4):
            text = diene_text(lf, marks)[0][0]
            try:
                rel = relations_by_pysmiles(text)
            except Exception:
                continue
            r1, r2 = rel.get(frozenset(('F', 'Cl'))), rel.get(frozenset(('Br', 'I')))
            if r1 and r2:
                out.append((lf, marks, r1, r2))
    return out


def fragments(lf, rf, tl, tr, cut, kind):
    """list of fragment texts in written order, and the list of (i, j) fragment bonds with order"""
    d1, d2 = ('[$a]', '[$a]') if kind == '$' else ('[>a]', '[<a]')
    e1, e2 = ('[$b]', '[$b]') if kind == '$' else ('[>b]', '[<b]')
    L = LEFT[lf][0].format(t=tl)
    Rt = RIGHT[rf][0].format(t=tr)
    if cut == 'none':
        return [L + '=' + Rt], []
    if cut == 'db':
        return [L + '=' + d1, d2 + '=' + Rt], [(0, 1, 1)]
    if cut == 'left-elsewhere':
        spec = LEFT[lf][1]
        if not spec:
            return None
        a, b = spec.format(t=tl).split('|')
        return [a + d1, d2 + b + '=' + Rt], [(0, 1, 1)]
    if cut == 'right-elsewhere':
        spec = RIGHT[rf][1]
        if not spec:
            return None
        a, b = spec.format(t=tr).split('|')
        # the tail carbon is cut off; a may contain an open branch
        if a.count('(') > a.count(')'):
            # 'C(C' + cut + 'C)/Cl' form: the cut lies inside the branch
            rest = b
            close = rest.index(')')
            return [L + '=' + a + d1 + rest[close:], d2 + rest[:close]], [(0, 1, 1)]
        return [L + '=' + a + d1, d2 + b], [(0, 1, 1)]
    if cut == 'db+right':
        spec = RIGHT[rf][1]
        if not spec:
            return None
        a, b = spec.format(t=tr).split('|')
        if a.count('(') > a.count(')'):
            close = b.index(')')
            return [L + '=' + e1, e2 + '=' + a + d1 + b[close:], d2 + b[:close]], [(0, 1, 1), (1, 2, 1)]
        return [L + '=' + e1, e2 + '=' + a + d1, d2 + b], [(0, 1, 1), (1, 2, 1)]
    if cut == 'db-shared-right':
        # the double bond is not cut by a bond: the left fragment ends with a bare copy of the right double-bond
        # atom, both copies are marked with the shared-atom operator
        if kind != '$':
            return None
        return [L + '=C[!a]', 'C[!a]' + Rt[1:]], [(0, 1, 1)]
    if cut == 'db-shared-left':
        if kind != '$':
            return None
        return [L + '[!a]', 'C[!a]=' + Rt], [(0, 1, 1)]
    if cut == 'ligand':
        # the F ligand is its own fragment; the mark stays next to the anchor atom of the double bond
        if lf == 'first':
            return ['F' + d1, d2 + tl + 'C' + '=' + Rt], [(0, 1, 1)]
        if lf == 'branch':
            return ['F' + d1, 'C(' + tl + d2 + ')=' + Rt], [(0, 1, 1)]
        return None
    return None


CUTS = ('none', 'db', 'left-elsewhere', 'right-elsewhere', 'db+right', 'ligand', 'db-shared-right', 'db-shared-left')

CENTRES = {
    # text with '|' at cuttable single bonds, the labelled atom is the one in brackets
    'alanine': ('N|[{c}](|C)|C(=O)O', ['C', 'C', 'H', 'N']),
    'S-aryl-alanine': ('CSc1ccc(cc1)C|[{c}](|N)|C(=O)O', ['C', 'C', 'H', 'N']),
    'halo': ('Br|[{c}](Cl)(F)|C|C', ['Br', 'C', 'Cl', 'F']),
    # plain bracket atoms before and after the labelled one (they must not pick up its label)
    'zwitterion': ('[NH3+]|[{c}](|[CH3])|C(=O)[O-]', ['C', 'C', 'H', 'N']),
}
LABELS = [('C;x=S', 'S'), ('C;x=R', 'R'), ('C;1;S', 'S'), ('C;w=0.5;x=R', 'R'), ('CH;x=S', 'S')]


def plan(tier, seed):
    tasks = []
    vs = variants()
    for i in range(0, len(vs), 4):
        tasks.append({'space': 'double-bond', 'variants': vs[i:i + 4]})
    for name in CENTRES:
        tasks.append({'space': 'stereocentre', 'centre': name})
    # two stereo double bonds in one molecule
    dv = diene_variants()
    for i in range(0, len(dv), 6):
        tasks.append({'space': 'two-double-bonds', 'dienes': dv[i:i + 6], 'full_orders': tier != 'quick'})
    # the same molecule at every offset of the atom numbering (an unconnected alkane of 1..22 carbons listed first)
    tasks.append({'space': 'shifted-numbering', 'shifts': list(range(1, 23)),
                  'variants': [v for v in vs if v[0] in ('first', 'branch', 'H-first') and v[1] in ('after', 'branch')]})
    # seed slice: one seed-chosen form pair with every order of three fragments (cut at the double bond and on the right)
    lf = sorted(LEFT)[seed % len(LEFT)]
    rf = sorted(RIGHT)[(seed // 4) % len(RIGHT)]
    tasks.append({'space': 'seed-slice', 'variants': [v for v in vs if v[0] == lf and v[1] == rf]})
    return tasks


def run_task(task, R):
    ex = Explorer(dedup=False)
    if task['space'] == 'stereocentre':
        text, nb = CENTRES[task['centre']]
        ncut = text.count('|')
        for lab, want in LABELS:
            if task['centre'] == 'halo' and lab.startswith('CH'):
                continue
            for mask in range(1 << ncut):
                nfrag = bin(mask).count('1') + 1
                perms = list(itertools.permutations(range(nfrag))) if nfrag <= 3 else [tuple(range(nfrag)), tuple(reversed(range(nfrag)))]
                for order in perms:
                    for kind in ('$', '>'):
                        ex.states += 1
                        ex.transitions += 1
                        inp = {'family': 'centre', 'centre': task['centre'], 'label': lab, 'want': want, 'mask': mask,
                               'order': order, 'kind': kind}
                        R.record(inp, evaluate(inp))
        R.add_explorer(ex)
        return
    if 'dienes' in task:
        for lf, marks, r1, r2 in task['dienes']:
            for r in range(0, 4):
                for cuts in itertools.combinations(('db1', 'linker', 'db2'), r):
                    n = len(cuts) + 1
                    perms = list(itertools.permutations(range(n)))
                    if not task['full_orders'] and n == 4:
                        perms = perms[::5]
                    for order in perms:
                        for kind in ('$', '>'):
                            ex.states += 1
                            ex.transitions += 1
                            inp = {'family': 'diene', 'lf': lf, 'marks': list(marks), 'rel': [r1, r2], 'cuts': list(cuts),
                                   'cut': 'db' if ('db1' in cuts or 'db2' in cuts) else ('elsewhere' if cuts else 'none'),
                                   'order': order, 'kind': kind}
                            R.record(inp, evaluate(inp))
        R.add_explorer(ex)
        return
    if task['space'] == 'shifted-numbering':
        for lf, rf, rel, tl, tr in task['variants']:
            for cut in ('none', 'db'):
                for shift in task['shifts']:
                    ex.states += 1
                    ex.transitions += 1
                    inp = {'family': 'db', 'lf': lf, 'rf': rf, 'rel': rel, 'tl': tl, 'tr': tr, 'cut': cut, 'kind': '$',
                           'order': tuple(range(1 if cut == 'none' else 2)), 'deforder': tuple(range(1 if cut == 'none' else 2)), 'shift': shift}
                    R.record(inp, evaluate(inp))
        R.add_explorer(ex)
        return
    for lf, rf, rel, tl, tr in task['variants']:
        for cut in CUTS:
            for kind in ('$', '>'):
                fr = fragments(lf, rf, tl, tr, cut, kind)
                if fr is None:
                    continue
                n = len(fr[0])
                for order in itertools.permutations(range(n)):
                    for deforder in itertools.permutations(range(n)):
                        ex.states += 1
                        ex.transitions += 1
                        inp = {'family': 'db', 'lf': lf, 'rf': rf, 'rel': rel, 'tl': tl, 'tr': tr, 'cut': cut, 'kind': kind,
                               'order': order, 'deforder': deforder}
                        R.record(inp, evaluate(inp))
                    if n == 1 or cut.startswith('db-shared'):
                        # (a spectator copy of a fragment holding one half of a shared double bond is not a valid fragment)
                        continue
                    # a fragment name that occurs a second time in the base graph: a disconnected spectator copy of
                    # one of the fragments, listed first or last
                    for k in range(n):
                        for where in ('first', 'last'):
                            ex.states += 1
                            ex.transitions += 1
                            inp = {'family': 'db', 'lf': lf, 'rf': rf, 'rel': rel, 'tl': tl, 'tr': tr, 'cut': cut, 'kind': kind,
                                   'order': order, 'deforder': tuple(range(n)), 'spectator': [k, where]}
                            R.record(inp, evaluate(inp))
    R.add_explorer(ex)


def build_db(inp):
    if inp['family'] == 'diene':
        frs, b2 = diene_text(inp['lf'], inp['marks'], inp['cuts'], inp['kind'])
        bonds = [(a, b, 1) for a, b in b2]
    else:
        frs, bonds = fragments(inp['lf'], inp['rf'], inp['tl'], inp['tr'], inp['cut'], inp['kind'])
    order = inp['order']
    posn = {f: i for i, f in enumerate(order)}
    n = len(frs)
    # base graph string: a chain in base order is only possible if bonded fragments are adjacent; use ring bonds otherwise
    names = ['F%d' % f for f in order]
    s = ''
    marks = {i: '' for i in range(n)}
    rid = 1
    chain_edges = set()
    for (a, b, o) in bonds:
        pa, pb = sorted((posn[a], posn[b]))
        if pb == pa + 1:
            chain_edges.add((pa, pb))
        else:
            marks[pa] += str(rid)
            marks[pb] += str(rid)
            rid += 1
    for i in range(n):
        if i > 0 and (i - 1, i) not in chain_edges:
            s += '.'
        s += '[#%s]%s' % (names[i], marks[i])
    if inp.get('spectator'):
        k, where = inp['spectator']
        s = ('[#F%d].' % k + s) if where == 'first' else (s + '.[#F%d]' % k)
    if inp.get('shift'):
        # an unconnected alkane listed first shifts the keys of all following atoms by 3*shift+2
        s = '[#S].' + s
    base = '{' + s + '}'
    deforder = inp.get('deforder') or tuple(range(n))
    fragstr = '{' + ','.join(['#F%d=%s' % (i, frs[i]) for i in deforder] + (['#S=' + 'C' * inp['shift']] if inp.get('shift') else [])) + '}'
    return base + '.' + fragstr


def check_paths(g):
    for n, d in g.nodes(data=True):
        for entry in d.get('ez_isomer', []) or []:
            l1, a1, a2, l2, kind = entry
            if not (g.has_edge(l1, a1) and g.has_edge(a1, a2) and g.has_edge(a2, l2)):
                return 'stereo-path-does-not-exist', {'entry': list(entry)}
            if g.edges[a1, a2].get('order') != 2:
                return 'stereo-path-middle-not-double', {'entry': list(entry)}
            if kind not in ('cis', 'trans'):
                return 'stereo-kind', {'entry': list(entry)}
    return None


def evaluate(inp):
    from cgsmiles import MoleculeResolver
    if inp['family'] == 'centre':
        return evaluate_centre(inp)
    s = build_db(inp)
    nontrivial = inp['cut'] != 'none'
    if inp['family'] == 'diene':
        return evaluate_diene(inp, s, nontrivial)
    try:
        cg, g = MoleculeResolver.from_string(s).resolve_all()
    except Exception as e:
        return bad('raises:' + type(e).__name__, inp['rel'], {'string': s, 'error': repr(e)[:150]}, nontrivial=nontrivial)
    r = check_paths(g)
    if r:
        return bad(r[0], inp['rel'], dict(r[1], string=s), nontrivial=nontrivial)
    f = [n for n, d in g.nodes(data=True) if d.get('element') == 'F']
    cl = [n for n, d in g.nodes(data=True) if d.get('element') == 'Cl']
    text = s.split('.{')[0]
    frag = dict(kv.split('=', 1) for kv in s.split('.{')[1][:-1].split(','))
    want_f = sum(frag['#' + nm].count('F') for nm in __import__('re').findall(r'\[#(\w+)\]', text))
    want_cl = sum(frag['#' + nm].count('Cl') for nm in __import__('re').findall(r'\[#(\w+)\]', text))
    if len(f) != want_f or len(cl) != want_cl:
        return bad('molecule', None, {'string': s}, nontrivial=nontrivial)
    lig = ligand(inp['lf'])
    rels = set()
    for n, d in g.nodes(data=True):
        for entry in d.get('ez_isomer', []) or []:
            if {g.nodes[entry[0]].get('element'), g.nodes[entry[3]].get('element')} == {lig, 'Cl'}:
                rels.add(entry[4])
    if not rels:
        return bad('relation-lost', inp['rel'], {'string': s}, nontrivial=nontrivial)
    if rels != {inp['rel']}:
        return bad('relation-flipped', inp['rel'], {'string': s, 'got': sorted(rels)}, nontrivial=nontrivial)
    return Verdict(nontrivial=nontrivial, outcome='%s/%s/%s/%s' % (inp['cut'], inp['rel'], len(cg), lig))


def evaluate_diene(inp, s, nontrivial):
    from cgsmiles import MoleculeResolver
    want = {frozenset(('F', 'Cl')): inp['rel'][0], frozenset(('Br', 'I')): inp['rel'][1]}
    try:
        cg, g = MoleculeResolver.from_string(s).resolve_all()
    except Exception as e:
        return bad('raises:' + type(e).__name__, inp['rel'], {'string': s, 'error': repr(e)[:150]}, nontrivial=nontrivial)
    r = check_paths(g)
    if r:
        return bad(r[0], inp['rel'], dict(r[1], string=s), nontrivial=nontrivial)
    got = {}
    for n, d in g.nodes(data=True):
        for entry in d.get('ez_isomer', []) or []:
            a, b = g.nodes[entry[0]].get('element'), g.nodes[entry[3]].get('element')
            if frozenset((a, b)) in want:
                got.setdefault(frozenset((a, b)), set()).add(entry[4])
    for k, rel in want.items():
        if k not in got:
            return bad('relation-lost', inp['rel'], {'string': s, 'pair': sorted(k)}, nontrivial=nontrivial)
        if got[k] != {rel}:
            return bad('relation-flipped', inp['rel'], {'string': s, 'pair': sorted(k), 'got': sorted(got[k])}, nontrivial=nontrivial)
    return Verdict(nontrivial=nontrivial, outcome='diene/%s/%s/%d' % (inp['rel'][0], inp['rel'][1], len(cg)))


def evaluate_centre(inp):
    from cgsmiles import MoleculeResolver
    text, nbh = CENTRES[inp['centre']]
    lab = inp['label']
    hform = '[H]' if False else ''
    body = text.replace('{c}', lab)
    pieces = []
    cur = ''
    k = 0
    cuts = []
    # walk the text, cutting at '|' positions selected by the mask; only top-level chain cuts are used
    depth_txt = body
    idx = 0
    letters = 'abcdefgh'
    d_open = {}
    out_frag = ['']
    bonds = []
    fi = 0
    stack = []
    kind = inp['kind']
    ncut = depth_txt.count('|')
    mask = inp['mask'] & ((1 << ncut) - 1)
    ci = 0
    pending = {}
    frag_of_stack = []
    drop_close = []
    chars = list(depth_txt)
    i = 0
    while i < len(chars):
        ch = chars[i]
        if ch == '(' and i + 1 < len(chars) and chars[i + 1] == '|':
            # a cut directly at the start of a branch: if taken, the branch becomes its own fragment and the
            # parentheses disappear; if not taken the branch stays
            if mask >> ci & 1:
                L = letters[ci]
                d1, d2 = ('[$%s]' % L, '[$%s]' % L) if kind == '$' else ('[>%s]' % L, '[<%s]' % L)
                out_frag[fi] += d1
                out_frag.append(d2)
                bonds.append((fi, len(out_frag) - 1))
                frag_of_stack.append(('cutparen', fi))
                fi = len(out_frag) - 1
            else:
                frag_of_stack.append(('paren', fi))
                out_frag[fi] += '('
            ci += 1
            i += 2
            continue
        if ch == '|':
            if mask >> ci & 1:
                L = letters[ci]
                d1, d2 = ('[$%s]' % L, '[$%s]' % L) if kind == '$' else ('[>%s]' % L, '[<%s]' % L)
                out_frag[fi] += d1
                out_frag.append(d2)
                bonds.append((fi, len(out_frag) - 1))
                frag_of_stack.append(('jump', fi))
                fi = len(out_frag) - 1
            ci += 1
            i += 1
            continue
        if ch == '(':
            frag_of_stack.append(('paren', fi))
            out_frag[fi] += ch
            i += 1
            continue
        if ch == ')':
            while frag_of_stack and frag_of_stack[-1][0] == 'jump':
                frag_of_stack.pop()
            kind_p, f0 = frag_of_stack.pop()
            fi = f0
            if kind_p == 'paren':
                out_frag[fi] += ch
            i += 1
            continue
        out_frag[fi] += ch
        i += 1
    frs = out_frag
    n = len(frs)
    order = tuple(inp['order'])[:n] if len(inp['order']) >= n else tuple(range(n))
    if sorted(order) != list(range(n)):
        return Verdict(skip=True, outcome='order-does-not-fit')
    posn = {f: i for i, f in enumerate(order)}
    marks = {i: '' for i in range(n)}
    chain = set()
    rid = 1
    for a, b in bonds:
        pa, pb = sorted((posn[a], posn[b]))
        if pb == pa + 1:
            chain.add((pa, pb))
        else:
            marks[pa] += str(rid)
            marks[pb] += str(rid)
            rid += 1
    s = ''
    for i in range(n):
        if i > 0 and (i - 1, i) not in chain:
            s += '.'
        s += '[#F%d]%s' % (order[i], marks[i])
    full = '{' + s + '}.{' + ','.join('#F%d=%s' % (i, t) for i, t in enumerate(frs)) + '}'
    nontrivial = n > 1
    try:
        cg, g = MoleculeResolver.from_string(full).resolve_all()
    except Exception as e:
        return bad('raises:' + type(e).__name__, inp['want'], {'string': full, 'error': repr(e)[:150]}, nontrivial=nontrivial)
    labelled = [(m, d['chiral']) for m, d in g.nodes(data=True) if d.get('chiral') is not None]
    if len(labelled) != 1:
        return bad('chirality-label-count', 1, {'string': full, 'labelled': labelled}, nontrivial=nontrivial)
    m, val = labelled[0]
    if val != inp['want']:
        return bad('chirality-label-value', inp['want'], {'string': full, 'got': val}, nontrivial=nontrivial)
    nb = sorted(g.nodes[x].get('element') for x in g[m])
    if nb != sorted(nbh):
        return bad('chirality-label-on-wrong-atom', sorted(nbh), {'string': full, 'neighbours': nb}, nontrivial=nontrivial)
    return Verdict(nontrivial=nontrivial, outcome='centre/%d/%s' % (n, val))


def classify(viol, finding):
    sig = finding['signature']
    inp = viol['input']
    if inp.get('family') not in ('db', 'diene') or viol['cls'] not in sig['cls_in']:
        return False
    if inp['cut'] not in sig['cuts']:
        return False
    if 'order_not_identity' in sig and tuple(inp['order']) == tuple(range(len(inp['order']))):
        return False
    if sig.get('shared_numbering'):
        # the merged atom is numbered after the atoms that belong to the first listed fragment only; the flip is
        # predicted exactly by whether the left ligand was written before or after its double-bond atom
        after = inp['lf'] not in ('first', 'ethyl-first', 'H-first')
        written = tuple(inp['order']) == (0, 1)
        if inp['cut'] == 'db-shared-left':
            return after == written
        return after and not written
    return True


def sanity(total, tier):
    return ['fewer than 8 distinct outcomes'] if len(total.outcomes) < 8 else []
