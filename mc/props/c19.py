"""C19 — the 2D layout gives every node a finite position at the requested scale."""
import math
import networkx as nx
from ..core import Explorer, Verdict, bad

ID = 'C19'
RULE = ('Graphs: every connected graph with 2-6 nodes up to isomorphism (networkx graph atlas; 7 nodes in the thorough tier) '
        'and resolved molecules (hydrogens, rings, edge orders, cis / trans annotated double bonds in both relations); '
        'configuration tree per graph: node relabeling (identity, reversed, offset, interleaved insertion order, string '
        'keys) x default_bond (1, 0.5, 2.5) x numpy RNG seed (pinned before the call) x align_with (None, two axes; first seed only). Histories: two layouts in a row on one graph object (plain / refined / refined with an unreachable energy target, '
        'different bond lengths). Oracle on vespr_layout: one position '
        'per node, each a finite 2-vector; bonded nodes farther apart than 1e-6 x default_bond; |mean bond length - '
        'default_bond| <= 1e-9 x default_bond. Non-trivial = graph has a cycle, a branch point or stereo annotation.')
ASSUMPTIONS = [
    'the layout RNG is numpy\'s global RNG (via networkx spring layout); it is pinned per case, "all seeds" = the enumerated set',
    'vespr_layout is judged exactly (1e-9); vespr_refined_layout (restraint minimisation) is judged on trees only, where unit bonds are satisfiable, with tolerance 5e-3 (observed deviation < 5e-5)',
]
EXPLANATION = 'exhaustive enumeration of small connected graphs x configurations on the real layout function'

MOLS = [
    '{[#A]}.{#A=CCO}', '{[#A]}.{#A=c1ccccc1C}', '{[#A][#B]}.{#A=C\\\\C=C/[$],#B=[$]/C=C/C}', '{[#A]}.{#A=F/C=C/F}', '{[#A]}.{#A=F/C=C\\\\F}',
    '{[#A][#B]}.{#A=CC(/F)=[$],#B=[$]=C(/F)C}', '{[#A]}.{#A=C1CC1C(=O)O}', '{[#PEO]|3}.{#PEO=[$]COC[$]}',
    '{[#A]}.{#A=C/C=C\\\\C=C/C}', '{[#A]}.{#A=Cl/C=C(/Br)C#N}',
]


def atlas(maxn):
    out = []
    for g in nx.graph_atlas_g():
        if 2 <= len(g) <= maxn and len(g.edges) >= 1 and nx.is_connected(g):
            out.append(g)
    return out


def plan(tier, seed):
    q = tier == 'quick'
    gs = atlas(6 if q else 7)
    tasks = []
    step = 2
    for i in range(0, len(gs), step):
        tasks.append({'space': 'atlas', 'kind': 'atlas', 'lo': i, 'hi': min(len(gs), i + step), 'maxn': 6 if q else 7,
                      'seeds': (0, 1, 2) if q else tuple(range(8)), 'bonds': (1, 0.5, 2.5)})
    for i, s in enumerate(MOLS):
        tasks.append({'space': 'molecules', 'kind': 'mol', 'index': i, 'seeds': (0, 1, 2) if q else tuple(range(8)), 'bonds': (1, 0.5, 2.5)})
    # the refined layout (L-BFGS on bond / angle restraints): only trees, where unit bonds are satisfiable in the plane
    trees = [i for i, g in enumerate(atlas(7)) if nx.is_tree(g) and len(g) >= 3]
    for i in (trees if not q else trees[::2]):
        tasks.append({'space': 'refined-trees', 'kind': 'refined', 'index': i, 'seeds': (0,) if q else (0, 1), 'bonds': (1, 2.5)})
    # the refined layout on resolved acyclic molecules (hydrogens, double bonds, cis/trans annotations: the dihedral restraints)
    for i in (0, 2, 3, 4, 5, 7, 8, 9):
        tasks.append({'space': 'refined-molecules', 'kind': 'refined-mol', 'index': i, 'seeds': (0,) if q else (0, 1), 'bonds': (1, 2.5)})
    # histories on ONE graph object: two layouts in a row with different bond lengths (plain and refined),
    # and a refined layout whose energy target cannot be reached (every retry fails)
    for i in (trees[::3] if q else trees):
        tasks.append({'space': 'histories', 'kind': 'history', 'index': i})
    # seed slice: the 7-node atlas graphs number k*40 + seed (spread over the atlas), all relabelings, seed-derived RNG seeds
    tasks.append({'space': 'seed-slice', 'kind': 'atlas7', 'offset': seed % 40, 'seeds': (100 + seed, 200 + seed), 'bonds': (1, 3.0)})
    return tasks


RELABEL = ('id', 'reversed', 'offset', 'interleaved', 'strings')


def relabel(g, how):
    nodes = list(g.nodes)
    n = len(nodes)
    if how == 'id':
        order, km = nodes, {k: k for k in nodes}
    elif how == 'reversed':
        order, km = nodes[::-1], {k: nodes[n - 1 - i] for i, k in enumerate(nodes)}
    elif how == 'offset':
        order, km = nodes, {k: 10 + 3 * i for i, k in enumerate(nodes)}
    elif how == 'interleaved':
        order, km = nodes[1::2] + nodes[0::2], {k: k for k in nodes}
    else:
        order, km = nodes, {k: 'n%s' % k for k in nodes}
    h = nx.Graph()
    for k in order:
        h.add_node(km[k], **{a: v for a, v in g.nodes[k].items() if a != 'ez_isomer'})
    for a, b, d in g.edges(data=True):
        h.add_edge(km[a], km[b], **dict(d))
    for k in nodes:
        ez = g.nodes[k].get('ez_isomer')
        if ez:
            h.nodes[km[k]]['ez_isomer'] = [tuple(km[x] for x in e[:4]) + (e[4],) for e in ez]
    return h


def graphs_of(task):
    if task['kind'] == 'atlas':
        return [('atlas%d' % i, g) for i, g in list(enumerate(atlas(task['maxn'])))[task['lo']:task['hi']]]
    if task['kind'] == 'refined':
        return [('tree%d' % task['index'], atlas(7)[task['index']])]
    if task['kind'] == 'atlas7':
        g7 = [g for g in atlas(7) if len(g) == 7]
        return [('atlas7-%d' % i, g7[i]) for i in range(task['offset'], len(g7), 40)]
    from cgsmiles import MoleculeResolver
    _, mol = MoleculeResolver.from_string(MOLS[task['index']]).resolve_all()
    return [('mol%d' % task['index'], mol)]


HIST_OPS = [('plain', 1.0), ('plain', 2.5), ('refined', 1.0), ('refined', 2.5), ('refined-strict', 2.0),
            ('draw', 1.0), ('draw', 2.5), ('draw-refined', 1.5)]      # draw = the drawing front end (draw_molecule) with that layout


def eval_history(inp):
    """two (or more) layouts in a row on ONE graph object"""
    import numpy as np
    from cgsmiles.graph_layout import vespr_layout, vespr_refined_layout
    g0 = atlas(7)[int(inp['graph'][4:])]
    h = relabel(g0, inp['relabel'])
    nx.set_edge_attributes(h, 1, 'order')
    for kind, b in inp['history']:
        np.random.seed(0)
        if kind == 'grow':
            # the caller edits the graph in place between two layouts: one more atom on the first node
            new = max(h.nodes) + 1
            h.add_node(new, element='C')
            h.add_edge(sorted(h.nodes)[0], new, order=1)
            continue
        if kind == 'permute':
            # the caller renumbers the graph with a permutation of the same labels (a new graph object that shares
            # the graph-level attribute dict with the old one)
            old = sorted(h.nodes)
            h = nx.relabel_nodes(h, dict(zip(old, old[1:] + old[:1])))
            continue
        try:
            if kind.startswith('draw'):
                import matplotlib
                matplotlib.use('Agg')
                import matplotlib.pyplot as plt
                from cgsmiles.drawing import draw_molecule
                nx.set_node_attributes(h, 'C', 'element')
                _, pos = draw_molecule(h, layout_method='vespr' if kind == 'draw' else 'vespr_refined', default_bond=b, cg_mapping=False)
                plt.close('all')
                tol = 1e-9 if kind == 'draw' else 5e-3
            elif kind == 'plain':
                pos, tol = vespr_layout(h, default_bond=b), 1e-9
            elif kind == 'refined':
                pos, tol = vespr_refined_layout(h, default_bond=b), 5e-3
            else:
                pos, tol = vespr_refined_layout(h, default_bond=b, target_energy=1e-12), 5e-3
        except Exception as e:
            return bad('history-raises:' + type(e).__name__, None, {'error': repr(e)[:150], 'op': [kind, b]})
        m = float(np.mean([np.linalg.norm(np.asarray(pos[a]) - np.asarray(pos[c])) for a, c in h.edges]))
        if abs(m - b) > tol * b:
            return bad('history:mean-bond-length-differs-from-default_bond', b, {'mean': m, 'op': [kind, b]})
    first, second = inp['history'][0], inp['history'][-1]
    return Verdict(nontrivial=first != second, outcome='hist:%s:%s' % (first[0], second[0]))


def run_history(task, R):
    ex = Explorer(dedup=False)
    for first in HIST_OPS:
        for second in HIST_OPS:
            for rl in ('id', 'offset'):
                ex.states += 1
                ex.transitions += 2
                inp = {'graph': 'tree%d' % task['index'], 'history': [list(first), list(second)], 'relabel': rl}
                R.record(inp, eval_history(inp))
    # layout, in-place edit of the same graph object, layout again with the same settings
    for op in (('refined', 1.0), ('refined', 2.5), ('plain', 1.0), ('draw-refined', 1.5)):
        for rl in ('id', 'offset'):
            ex.states += 1
            ex.transitions += 3
            inp = {'graph': 'tree%d' % task['index'], 'history': [list(op), ['grow', 0], list(op)], 'relabel': rl}
            R.record(inp, eval_history(inp))
            inp = {'graph': 'tree%d' % task['index'], 'history': [list(op), ['permute', 0], list(op)], 'relabel': rl}
            R.record(inp, eval_history(inp))
    R.add_explorer(ex)


def run_task(task, R):
    if task['kind'] == 'history':
        return run_history(task, R)
    ex = Explorer(dedup=False)
    for name, g in graphs_of(task):
        rls = RELABEL if not any('ez_isomer' in d for _, d in g.nodes(data=True)) else RELABEL[:4]
        for rl in rls:
            for b in task['bonds']:
                for sd in task['seeds']:
                  for align in ((None, [1, 0], [3, 2]) if (sd == task['seeds'][0] and not task['kind'].startswith('refined')) else (None,)):
                    ex.states += 1
                    ex.transitions += 1
                    inp = {'graph': name, 'edges': [list(e) for e in g.edges] if name.startswith(('atlas', 'tree')) else None,
                           'refined': task['kind'].startswith('refined'), 'align': align,
                           'mol': MOLS[task['index']] if task['kind'] in ('mol', 'refined-mol') else None, 'relabel': rl, 'bond': b, 'npseed': sd}
                    R.record(inp, evaluate(inp, g))
    R.add_explorer(ex)


def evaluate(inp, g=None):
    import numpy as np
    from cgsmiles.graph_layout import vespr_layout, vespr_refined_layout
    if 'history' in inp:
        return eval_history(inp)
    if g is None:
        if inp['mol']:
            from cgsmiles import MoleculeResolver
            _, g = MoleculeResolver.from_string(inp['mol']).resolve_all()
        else:
            g = nx.Graph()
            g.add_edges_from(tuple(e) for e in inp['edges'])
    h = relabel(g, inp['relabel'])
    b = inp['bond']
    nontrivial = len(h.edges) >= len(h) or max(d for _, d in h.degree()) >= 3 or any('ez_isomer' in d for _, d in h.nodes(data=True))
    np.random.seed(inp['npseed'])
    tol = 1e-9
    try:
        if inp.get('refined'):
            if not inp.get('mol'):
                nx.set_edge_attributes(h, 1, 'order')
            pos = vespr_refined_layout(h, default_bond=b)
            tol = 5e-3      # restraint minimisation, not an exact rescaling (observed < 5e-5 on trees)
        else:
            kw = {}
            if inp.get('align') is not None:
                kw['align_with'] = np.array(inp['align'], dtype=float)
            pos = vespr_layout(h, default_bond=b, **kw)
    except Exception as e:
        return bad('raises:' + type(e).__name__, None, {'error': repr(e)[:150]}, nontrivial=nontrivial)
    if set(pos) != set(h.nodes):
        return bad('positions-not-one-per-node', sorted(map(str, h.nodes)), sorted(map(str, pos)), nontrivial=nontrivial)
    for n, p in pos.items():
        p = np.asarray(p, dtype=float)
        if p.shape != (2,) or not all(math.isfinite(x) for x in p):
            return bad('position-not-a-finite-2-vector', None, {'node': str(n), 'position': repr(p)}, nontrivial=nontrivial)
    dists = []
    for a, c in h.edges:
        d = float(np.linalg.norm(np.asarray(pos[a]) - np.asarray(pos[c])))
        if d <= 1e-6 * b:
            return bad('bonded-nodes-coincide', None, {'edge': (str(a), str(c)), 'distance': d}, nontrivial=nontrivial)
        dists.append(d)
    mean = sum(dists) / len(dists)
    if abs(mean - b) > tol * b:
        return bad('mean-bond-length-differs-from-default_bond', b, {'mean': mean}, nontrivial=nontrivial)
    return Verdict(nontrivial=nontrivial, outcome='%d/%d' % (len(h), len(h.edges)))


def sanity(total, tier):
    return ['fewer than 15 distinct outcomes'] if len(total.outcomes) < 15 else []
