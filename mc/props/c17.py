"""C17 — the sampler honours target weight, reactivities, terminals and seed.

Shares C16's exhaustive choice-tree exploration (per-path oracle on masses,
reactivities handed to the RNG, terminal rules) and adds an explicit-state
exploration of construct-and-sample histories with the real RNG, compared with
fresh-process references under several PYTHONHASHSEED values."""
import collections
import hashlib
import json
import random as real_random
from ..core import Explorer, Verdict, bad
from .. import own
from ..gen.molecules import VAL, ref_hcount
from . import c16

ID = 'C17'
RULE = ('(1) Every path of the C16 choice trees: mass of the fragments added by growth reaches the target and is below it '
        'without the last one; element-derived masses equal the reference mass (atomic masses incl. R-valence hydrogens); '
        'every weight vector handed to the RNG is zero exactly where the reactivity table is zero, the chosen site / partner '
        'has non-zero (conditional) reactivity; terminal rules on the final descriptor lists. (2) Histories with the real '
        'RNG: breadth-first over sequences (depth<=3) of {construct(seed s)+sample(w), foreign RNG draw, construct another '
        'sampler, construct a sampler over other fragments with the same names, sample an older sampler}; every construct+sample unit must return the fresh-process reference molecule '
        'for (s, w), and the references must agree across PYTHONHASHSEED values. Non-trivial = >=1 growth step.')
ASSUMPTIONS = c16.ASSUMPTIONS + [
    'atomic masses are taken from pysmiles.PTE (trusted); hydrogens of a fragment mass = R-valence hydrogens of the isolated fragment; '
    'aromatic atoms other than carbon carry only their written hydrogens (OpenSMILES)',
    'hash seeds / RNG seeds are covered for the enumerated finite sets only',
]
EXPLANATION = 'exhaustive RNG choice-tree exploration plus explicit-state history exploration on the real sampler'

HASHSEEDS = [0, 1, 2, 3, 4242]


def ref_mass(tmpl):
    import pysmiles
    m = 0.0
    for n, d in tmpl.nodes(data=True):
        el = d['element']
        m += pysmiles.PTE[el]['AtomicMass']
        if el == 'H':
            continue
        key = (el, int(d.get('charge', 0)))
        if key not in VAL:
            return None
        if d.get('aromatic') and el != 'C':
            # OpenSMILES: an aromatic atom other than carbon has no implicit hydrogen, only the written one ([nH])
            a = str(d.get('_atom_str', ''))
            nh = pysmiles.smiles_helper.parse_atom(a).get('hcount', 0) if a.startswith('[') else 0
            m += nh * pysmiles.PTE['H']['AtomicMass']
            continue
        s = sum(e.get('order', 1) for _, _, e in tmpl.edges(n, data=True))
        h = ref_hcount(key[0], key[1], s)
        if h is None:
            return None
        nh_explicit = sum(1 for x in tmpl[n] if tmpl.nodes[x].get('element') == 'H')
        m += max(0, h) * pysmiles.PTE['H']['AtomicMass']
    return m


def check_path(c, inp, sampler, mol, ch):
    target = inp['target']
    # masses
    if c['all_atom'] and not c['masses']:
        for f, g in sampler.fragment_dict.items():
            want = ref_mass(g)
            if want is not None and abs(sampler.fragment_masses[f] - want) > 1e-6:
                return 'mass:element-derived', {'fragment': f, 'mass': sampler.fragment_masses[f], 'expected': want}
    byfid = {}
    for n, d in mol.nodes(data=True):
        byfid[d['fragid'][0]] = d['fragname']
    added = [sampler.fragment_masses[byfid[k]] for k in sorted(byfid) if k != 0]
    tot = sum(added)
    if target <= 0:
        if added:
            return 'target:growth-without-need', {'added': added}
    else:
        if tot < target - 1e-9:
            return 'target:not-reached', {'added': added, 'target': target}
        if added and tot - added[-1] >= target - 1e-9:
            return 'target:overshoot-by-more-than-one-fragment', {'added': added, 'target': target}
    # weights handed to the RNG
    pr = sampler.polymer_reactivities
    fr = sampler.fragment_reactivities
    for kind, pop, w, picked in ch.log:
        if kind != 'choices':
            continue
        names = [eval(x) for x in pop]
        table = None
        # site selection uses the polymer table, partner selection a conditional table
        for cand in [pr] + list(fr.values()):
            z = [cand.get(x, 0) for x in names]
            sz = sum(z)
            if sz > 0 and all(abs(a / sz - b) < 1e-9 for a, b in zip(z, w)):
                table = cand
                break
        if table is None:
            return 'reactivity:weights-do-not-follow-a-table', {'population': names, 'weights': w}
    term = set(sampler.terminal_bonds)
    src_steps = collections.defaultdict(list)
    for a, b, d in mol.edges(data=True):
        if 'bonding' not in d:
            continue
        x, y = d['bonding']
        if mol.nodes[a]['fragid'][0] > mol.nodes[b]['fragid'][0]:
            a, b = b, a
        if pr and pr.get(x, 0) <= 0:
            return 'reactivity:site-with-zero-reactivity', {'site': x}
        if x in fr and fr[x].get(y, 0) <= 0:
            return 'reactivity:partner-with-zero-conditional-reactivity', {'site': x, 'partner': y}
        src_steps[a].append(y)
    for a, partners in src_steps.items():
        left = mol.nodes[a].get('bonding') or []
        if any(y in term for y in partners):
            if left:
                return 'terminal:atom-with-terminal-fragment-still-offers-descriptors', {'node': a, 'left': left}
        elif any(x in term for x in left):
            return 'terminal:terminal-descriptor-not-withdrawn', {'node': a, 'left': left}
    return None


def plan(tier, seed):
    tasks = []
    for t in c16.plan(tier, seed):
        if t['kind'] == 'sampler':
            tasks.append(t)
    q = tier == 'quick'
    for name in ('cg-mixed', 'cg-cond', 'aa-pe', 'aa-brush') if q else [n for n in c16.CONFIGS]:
        tasks.append({'space': 'seed-histories', 'kind': 'seedhist', 'config': name, 'depth': 3 if q else 4,
                      'hashseeds': HASHSEEDS[:3] + [1000 + seed] if q else HASHSEEDS + [1000 + seed]})
    return tasks


def run_task(task, R):
    if task['kind'] == 'seedhist':
        return run_seedhist(task, R)
    return c16.run_task(task, R, oracle='c17')


REF_SCRIPT = r'''
import sys, os, json
sys.path.insert(0, %(verif)r)
from mc import repo
from mc.props import c16
c = c16.CONFIGS[%(config)r]
out = {}
with repo.quiet():
    if %(alien_first)r:
        # the very first sampler of this process is one over other fragments with the same names
        import re
        c16.make_sampler(dict(c, frag=re.sub(r'(?<![\[A-Za-z#])C(?![a-zH\]])', 'CC', c['frag'])), seed=5)
    for s in (1, 2):
        for w in %(targets)r:
            try:
                m = c16.make_sampler(c, seed=s).sample(w, start_fragment=c['start'])
                out['%%d/%%s' %% (s, w)] = c16.dump(m)
            except Exception as e:
                out['%%d/%%s' %% (s, w)] = 'raises:' + type(e).__name__
print(json.dumps(out))
'''


def seed_machine(config, hashseeds):
    """fresh-process references per hash seed and the history replayer for one configuration"""
    import os
    import cgsmiles.sample as S
    c = c16.CONFIGS[config]
    targets = sorted(c['targets'])[-2:]
    verif = os.path.dirname(os.path.dirname(os.path.dirname(os.path.abspath(__file__))))
    script = REF_SCRIPT % {'verif': verif, 'config': config, 'targets': targets, 'alien_first': False}
    refs = {hs: own.fresh(script, hs) for hs in hashseeds}
    if c['all_atom'] and not c['masses']:
        refs['alien-first'] = own.fresh(REF_SCRIPT % {'verif': verif, 'config': config, 'targets': targets, 'alien_first': True},
                                        hashseeds[0])
    ops = [('U', s, w) for s in (1, 2) for w in targets] + [('F',), ('N',), ('O',)]
    alien = None
    if c['all_atom'] and not c['masses']:
        # a sampler over fragments with the SAME names but other structures (every aliphatic carbon doubled), built
        # without explicit masses: nothing it computes may reach the samplers constructed afterwards
        import re
        alien = dict(c, frag=re.sub(r'(?<![\[A-Za-z#])C(?![a-zH\]])', 'CC', c['frag']))
        ops.append(('M',))

    def replay(hist):
        """fresh objects, operations replayed with the real RNG; returns list of outputs of U operations"""
        S.random = real_random
        outs = []
        older = c16.make_sampler(c, seed=7)
        real_random.seed(12345)
        for op in hist:
            op = tuple(op)
            if op[0] == 'U':
                try:
                    m = c16.make_sampler(c, seed=op[1]).sample(op[2], start_fragment=c['start'])
                    outs.append((op, c16.dump(m)))
                except (IndexError, ValueError, OSError, KeyError, SyntaxError) as e:
                    outs.append((op, 'raises:' + type(e).__name__))
            elif op[0] == 'F':
                real_random.random()
            elif op[0] == 'N':
                c16.make_sampler(c, seed=99)
            elif op[0] == 'O':
                try:
                    older.sample(targets[0], start_fragment=c['start'])
                except (IndexError, ValueError, OSError, KeyError, SyntaxError):
                    pass
            elif op[0] == 'M':
                c16.make_sampler(alien, seed=5)
        return outs
    return refs, ops, replay


def run_seedhist(task, R):
    refs, ops, replay = seed_machine(task['config'], task['hashseeds'])
    base = refs[task['hashseeds'][0]]
    for hs, r in refs.items():
        inp = {'kind': 'seedhist-ref', 'config': task['config'], 'hashseed': hs}
        if r != base and hs == 'alien-first':
            diff = [k for k in base if base[k] != r.get(k)]
            R.record(inp, bad('seed:result-depends-on-a-sampler-constructed-earlier-in-the-process', None, {'differs_for': diff}))
        elif r != base:
            diff = [k for k in base if base[k] != r.get(k)]
            R.record(inp, bad('seed:result-depends-on-PYTHONHASHSEED', None, {'differs_for': diff, 'hashseeds': [task['hashseeds'][0], hs]}))
        else:
            R.record(inp, Verdict(outcome='ref-hashseed-%s' % hs))
    ex = Explorer(dedup=True)
    nbad = 0

    def succ(hist):
        if len(hist) >= task['depth']:
            return []
        return [hist + (op,) for op in ops]
    for hist in ex.run_bfs((), succ, lambda h: len(h) >= 1 and h[-1][0] == 'U'):
        outs = replay(hist)
        op, got = outs[-1]
        want = base['%d/%s' % (op[1], op[2])]
        inp = {'kind': 'seedhist', 'config': task['config'], 'history': [list(o) for o in hist]}
        if got != want:
            R.record(inp, bad('seed:construct-and-sample-not-reproducible', None, {'history': [list(o) for o in hist]}))
            nbad += 1
            if nbad >= 40:
                R.cap('seed histories of %s stopped after 40 non-reproducible histories' % task['config'])
                break
        else:
            R.record(inp, Verdict(nontrivial=len(hist) > 1, outcome='hist-ok:%s' % hashlib.md5(want.encode()).hexdigest()[:6]))
    R.add_explorer(ex)


def evaluate(inp):
    if inp.get('kind') == 'seedhist-ref' and inp['hashseed'] == 'alien-first':
        refs, ops, replay = seed_machine(inp['config'], [0])
        if refs[0] != refs.get('alien-first', refs[0]):
            return bad('seed:result-depends-on-a-sampler-constructed-earlier-in-the-process', None, {})
        return Verdict(outcome='refs-agree')
    if inp.get('kind') == 'seedhist-ref':
        refs, ops, replay = seed_machine(inp['config'], [0, inp['hashseed']])
        if refs[0] != refs[inp['hashseed']]:
            return bad('seed:result-depends-on-PYTHONHASHSEED', None, {'hashseeds': [0, inp['hashseed']]})
        return Verdict(outcome='refs-agree')
    if inp.get('kind') == 'seedhist':
        refs, ops, replay = seed_machine(inp['config'], [0])
        outs = replay(inp['history'])
        op, got = outs[-1]
        if got != refs[0]['%d/%s' % (op[1], op[2])]:
            return bad('seed:construct-and-sample-not-reproducible', None, {'history': inp['history']})
        return Verdict(outcome='history-ok')
    return c16.evaluate(inp, oracle='c17')


def sanity(total, tier):
    return ['fewer than 20 distinct outcomes'] if len(total.outcomes) < 20 else []
