"""C20 — malformed input is rejected, never silently resolved.

Fault enumeration on top of the exhaustive generators: every valid sentence of
the C04 core and every resolver input of the bounded family is crossed with
every position at which one of the listed faults can be injected."""
from ..core import Explorer, Verdict, bad
from ..gen import grammar as G
from ..gen import basefrag as BF
from . import c04

ID = 'C20'
RULE = ('Valid sentences of the graph grammar (<=4-5 nodes, branches, rings, bond symbols, multipliers) and resolver inputs '
        '(base string x fragment library) x every injection position of: a ring marker that is never closed (digit and %nn, any '
        'node); a ring bond duplicating an existing chain / branch / ring edge (any edge); renaming any node to a name without '
        'fragment; an annotation entry with two "=", one positional value too many, a non-numeric charge / weight, on any node or '
        'bracket atom. Injections that happen to yield a valid string (re-parsed with the reference denotation: e.g. a '
        'fragment-less node whose edges are all order 0) are dropped. Oracle: the call raises the documented class (SyntaxError; '
        'TypeError for the non-numeric value) and returns no graph. Non-trivial = sentence has >= 2 nodes.')
ASSUMPTIONS = [
    'the documented classes are SyntaxError for structural faults and TypeError for a non-numeric reserved value',
    'fault-free validity of the host sentence is C04\'s business (hosts the reader mis-reads are skipped and counted)',
]
EXPLANATION = 'exhaustive fault-position enumeration over exhaustively generated hosts, run on the real reader / resolver'

ANNOT_FAULTS = [('w=ab=c', SyntaxError), ('q=1=2', SyntaxError), ('1;2;3', SyntaxError), ('q=1;2;3;4', SyntaxError),
                ('q=a', TypeError), ('w=abc', TypeError), ('x1', TypeError), ('0;zz', TypeError)]
FRAG_ANNOT_FAULTS = [('w=ab=c', SyntaxError), ('0.5;R;3', SyntaxError), ('w=abc', TypeError), ('zz', TypeError)]


def node_insert_positions(toks):
    """for each node: token index right after the node and its ring markers"""
    pos = []
    for i, t in enumerate(toks):
        if t[0] == 'n':
            j = i + 1
            while j < len(toks) and (toks[j][0] == 'r' or (toks[j][0] == 'b' and j + 1 < len(toks) and toks[j + 1][0] == 'r')):
                j += 1
            pos.append((i, j))
    return pos


def graph_faults(toks):
    """yield (fault name, faulty tokens, expected exception)"""
    toks = tuple(toks)
    has_mult = any(t[0] == 'm' for t in toks)
    pos = node_insert_positions(toks)
    used = {t[1] for t in toks if t[0] == 'r'}
    free = [d for d in range(1, 10) if d not in used]
    # 1. dangling ring marker
    for k, (i, j) in enumerate(pos):
        for style, rid in (('d', free[0]), ('p', free[-1] + 10)) + ((('d', 0), ('p', 0)) if 0 not in used else ()):   # ring index 0 is a valid index
            # a digit marker may not directly follow a %-marker (it would be read as part of it)
            if style == 'd' and j > 0 and toks[j - 1][0] == 'r' and toks[j - 1][2] == 'p':
                continue
            if j < len(toks) and toks[j][0] == 'm':
                continue
            yield 'dangling-ring', toks[:j] + (('r', rid, style),) + toks[j:], SyntaxError
    # 2. ring bond duplicating an existing edge
    if not has_mult:
        try:
            nodes, edges = G.denote(toks)
        except G.NotSimple:
            return
        for (a, b) in sorted(edges):
            ja, jb = pos[a][1], pos[b][1]
            if toks[ja - 1][0] == 'r' and toks[ja - 1][2] == 'p' or toks[jb - 1][0] == 'r' and toks[jb - 1][2] == 'p':
                continue
            for rid in (free[0],) + ((0,) if 0 not in used else ()):
                new = list(toks)
                new[jb:jb] = [('r', rid, 'd')]
                new[ja:ja] = [('r', rid, 'd')]
                yield 'duplicate-edge', tuple(new), SyntaxError
    # 4. annotation faults
    for k, (i, j) in enumerate(pos):
        if toks[i][2]:
            continue
        for txt, exc in ANNOT_FAULTS:
            yield 'annotation:' + txt, toks[:i] + (('n', toks[i][1], txt),) + toks[i + 1:], exc


def plan(tier, seed):
    q = tier == 'quick'
    tasks = []
    B = G.Bound(max_nodes=4 if q else 5, max_depth=2, max_open=2, max_rings=2, bonds=('=',), ring_styles=('d', 'p'),
                max_bonds=2, mults=(2,), max_mults=1)
    for r in c04.roots(B, 4):
        tasks.append({'space': 'graph-faults', 'bound': B.to_json(), 'root': r, 'k': 4})
    tasks.append({'space': 'graph-faults', 'bound': B.to_json(), 'root': None, 'k': 4})
    # resolver level
    RB = G.Bound(max_nodes=3 if q else 4, max_depth=1, max_open=1, max_rings=1, bonds=('.',), ring_styles=('d',), names=['A', 'B'],
                 names_free=True, mults=(2,), max_mults=1, max_bonds=2)
    bases, ex = BF.base_strings(RB)
    aa = {k: BF.AA[k] for k in ('pe', 'two', 'ter', 'sq2')}
    cg = {k: BF.CG[k] for k in ('xy', 'dir')}
    for fam, tm, allatom in (('resolver-faults-aa', aa, True), ('resolver-faults-cg', cg, False)):
        for i in range(0, len(bases), 10):
            tasks.append({'space': fam, 'bases': bases[i:i + 10], 'templates': sorted(tm.items()), 'all_atom': allatom,
                          'pre': (ex.states, ex.transitions) if i == 0 else (0, 0)})
    # seed slice: 6-node hosts over a seed-selected shape family
    fam = [dict(max_depth=1, max_open=1, max_rings=1), dict(max_depth=2, max_open=0, max_rings=0),
           dict(max_depth=0, max_open=2, max_rings=2)][seed % 3]
    SB = G.Bound(max_nodes=6, bonds=(), ring_styles=('d',), **fam)
    for r in c04.roots(SB, 4):
        tasks.append({'space': 'seed-slice', 'bound': SB.to_json(), 'root': r, 'k': 4, 'min_nodes': 6})
    return tasks


def run_task(task, R):
    ex = Explorer(dedup=False)
    if 'bases' in task:
        ex.states += task['pre'][0]
        ex.transitions += task['pre'][1]
        import itertools
        for toks in task['bases']:
            names = BF.names_used(toks)
            for assign in itertools.product(task['templates'], repeat=len(names)):
                frags = {n: a[1] for n, a in zip(names, assign)}
                ex.states += 1
                ex.transitions += 1
                # 3. rename a node
                nodes_idx = [i for i, t in enumerate(toks) if t[0] == 'n']
                for i in nodes_idx:
                    new = toks[:i] + (('n', 'Q', toks[i][2]),) + toks[i + 1:]
                    inp = {'level': 'resolver', 'fault': 'no-fragment', 'tokens': new, 'frags': frags, 'all_atom': task['all_atom'],
                           'renamed': nodes_idx.index(i), 'expect': 'SyntaxError'}
                    R.record(inp, evaluate(inp))
                # fragment level annotation faults: first template, first atom
                if task['all_atom']:
                    for txt, exc in FRAG_ANNOT_FAULTS:
                        n0 = names[0]
                        f2 = dict(frags)
                        f2[n0] = f2[n0].replace('C', '[C;%s]' % txt, 1) if 'C' in f2[n0] else f2[n0].replace('O', '[O;%s]' % txt, 1)
                        inp = {'level': 'resolver', 'fault': 'fragment-annotation:' + txt, 'tokens': toks, 'frags': f2,
                               'all_atom': True, 'expect': exc.__name__}
                        R.record(inp, evaluate(inp))
                # graph level faults carried through the resolver
                for name, ftoks, exc in graph_faults(toks):
                    if name.startswith('annotation') and not name.endswith(('w=ab=c', 'q=a', '1;2;3')):
                        continue
                    inp = {'level': 'resolver', 'fault': name, 'tokens': ftoks, 'frags': frags, 'all_atom': task['all_atom'],
                           'expect': exc.__name__}
                    R.record(inp, evaluate(inp))
        R.add_explorer(ex)
        return
    B = G.Bound.from_json(task['bound'])
    if task['root'] is None:
        B.max_tokens = task['k'] - 1
        init = G.INIT
    else:
        init = task['root']
    for st in ex.run(init, lambda s: G.succ(s, B), G.complete):
        toks = st[0]
        if task.get('min_nodes') and st[1] < task['min_nodes']:
            continue
        for name, ftoks, exc in graph_faults(toks):
            inp = {'level': 'graph', 'fault': name, 'tokens': ftoks, 'expect': exc.__name__}
            R.record(inp, evaluate(inp))
    R.add_explorer(ex)


def still_valid(inp, toks):
    """the injection produced a valid input (reference re-parse): drop it"""
    if inp['fault'] == 'no-fragment':
        try:
            nodes, edges = G.denote(G.expand_mult(toks)) if any(t[0] == 'm' for t in toks) else G.denote(toks)
        except G.NotSimple:
            return False
        q = [i for i, (nm, a) in enumerate(nodes) if nm == 'Q']
        return all(o == 0 for (a, b), o in edges.items() if a in q or b in q)
    return False


def evaluate(inp):
    from cgsmiles import read_cgsmiles, MoleculeResolver
    toks = tuple(tuple(t) for t in inp['tokens'])
    s = G.ser(toks)
    nnodes = sum(1 for t in toks if t[0] == 'n')
    if still_valid(inp, toks):
        return Verdict(skip=True, outcome='injection-yields-valid-input')
    want = inp['expect']
    try:
        if inp['level'] == 'graph':
            text = s
            out = read_cgsmiles(s)
        else:
            text = BF.cgsmiles(s, inp['frags'])
            out = MoleculeResolver.from_string(text, last_all_atom=inp['all_atom']).resolve_all()
    except Exception as e:
        got = type(e).__name__
        if got == want:
            return Verdict(nontrivial=nnodes >= 2, outcome=inp['fault'].split(':')[0] + ':' + got)
        return bad('wrong-exception:%s:%s' % (inp['fault'].split(':')[0], got), want, {'string': text, 'error': repr(e)[:150]},
                   nontrivial=nnodes >= 2)
    return bad('accepted:' + inp['fault'].split(':')[0], want, {'string': text, 'returned': str(type(out))}, nontrivial=nnodes >= 2)


def sanity(total, tier):
    return ['fewer than 6 distinct outcomes'] if len(total.outcomes) < 6 else []
