"""C03 — inter-fragment bonds follow the base graph and the bonding-descriptor rules."""
from ..core import Verdict, bad
from ..ref import oracles as O
from . import _resolver as RS

ID = 'C03'
RULE = ('Base graph strings (edge orders 0-2 via bond symbols, rings, multiplied units) x every assignment of fragment '
        'templates chosen for ambiguity (unlabelled $, homopolymers, two descriptors on one atom, labelled pairs, order '
        'annotated descriptors, surplus descriptors, > / <, shared atoms, coarse templates) x both matching conventions, '
        'enumerated completely within the bound, plus the dedicated family (C01 cuts: one uniquely labelled pair per cut '
        'bond) where the number of bonds must equal the edge order. Every fine edge between different coarse nodes is '
        'judged with the descriptor compatibility relation R-compat. Non-trivial = at least one inter-fragment bond.')
ASSUMPTIONS = [
    'R-compat: legacy: $x/$x, !x/!x, >x/<x with identical label and order digit; otherwise only the symbol kind',
    'a bond at an atom shared by several coarse nodes is attributed to one base edge (existence of an attribution within the edge orders)',
    'under the label-insensitive convention the bond may carry the order of either descriptor',
    'a cut bond between two atoms written as aromatic whose ring pysmiles returns kekulised (five-membered hetero-aromatics) '
    'carries its Kekule order 1 or 2 instead of 1.5, like every other bond of that ring',
]
EXPLANATION = 'bounded-exhaustive enumeration of base graph x ambiguous fragment library x convention on the real resolver'


def plan(tier, seed):
    tasks = RS.plan(tier, seed)
    for t in tasks:
        if t['space'].endswith('-orders'):
            t['vias'] = ('string', 'graph')
    return tasks + dedicated_plan(tier, seed)


def dedicated_plan(tier, seed):
    from . import c01
    tasks = []
    for t in c01.plan(tier, seed):
        if t['space'] in ('feature', 'seed-slice') or t['space'].startswith('grow2'):
            if any(m.get('arom_h') for m in t['mols']):
                continue        # cuts next to a written [nH] are decided and recorded under C01 (C01-K1)
            t = dict(t)
            t['space'] = 'dedicated-' + t['space']
            t['kind'] = 'dedicated'
            t['level'] = 'lite2'
            tasks.append(t)
    return tasks


def check(coarse, fine, fd, aa, inp):
    toks = inp.get('tokens')
    if toks is not None and not any(t[0] == 'm' for t in toks):
        # the coarse graph handed back must still be the base graph that was written (edge orders included)
        from ..gen import grammar as G
        nodes, edges = G.denote(tuple(tuple(t) for t in toks))
        got = {(min(a, b), max(a, b)): d.get('order') for a, b, d in coarse.edges(data=True)}
        if got != edges:
            return 'bond:base-graph-edge-orders-changed', {'written': sorted(edges.items()), 'returned': sorted(got.items())}
    return O.check_bonds(coarse, fine, fd, inp.get('legacy', True), aa, dedicated=inp.get('dedicated', False))


def run_task(task, R):
    if task.get('kind') == 'dedicated':
        from . import c01
        from ..core import Explorer
        from ..gen import molecules as M
        ex_total = Explorer(dedup=False)
        for mol in task['mols']:
            parts = task.get('parts') or M.partitions(mol, max_frag=task.get('max_frag'))
            for comps in parts:
                comps = tuple(tuple(c) for c in comps)
                succ, term, styles = c01.leaves(mol, comps, 'lite2')
                ex = Explorer(dedup=False)
                for leaf in ex.run((), succ, term):
                    k = len(comps)
                    inp = {'mol': mol, 'comps': comps, 'kinds': leaf[0], 'order': leaf[1], 'starts': leaf[2:2 + k],
                           'style': styles[leaf[2 + k]], 'via': 'string', 'dedicated': True}
                    R.record(inp, evaluate(inp))
                ex_total.states += ex.states
                ex_total.transitions += ex.transitions
        R.add_explorer(ex_total)
        return
    for inp in RS.cases(task, R):
        R.record(inp, evaluate(inp))


def evaluate(inp):
    if inp.get('dedicated'):
        from . import c01
        from ..gen import molecules as M
        if c01.reference(inp['mol']) is None:
            return Verdict(skip=True, outcome='uncut-molecule-not-resolvable')
        B, fragstr = c01.build(inp)
        s, _ = M.base_string(B)
        if s is None:
            return Verdict(skip=True, outcome='base-graph-not-writable')
        inp2 = {'string': s + '.' + fragstr, 'all_atom': True, 'legacy': True, 'dedicated': True, 'base': s, 'frags': {}}
        v = RS.run_invariant(inp2, check, nontrivial_rule=lambda c, f: any('bonding' in d for _, _, d in f.edges(data=True)))
        return v
    return RS.run_invariant(inp, check, nontrivial_rule=lambda c, f: any('bonding' in d for _, _, d in f.edges(data=True)))


def sanity(total, tier):
    return ['fewer than 20 distinct outcomes'] if len(total.outcomes) < 20 else []
