"""Shared enumeration for the resolver invariants (C02, C03, C09, C11, C12a, C20):
base graph strings x fragment libraries x conventions."""
import itertools
from ..core import Explorer, Verdict, bad
from ..gen import grammar as G
from ..gen import basefrag as BF

KEKULE_MSG = 'Likely you are writing an aromatic molecule'


def families(tier, seed, want=('aa', 'cg')):
    """list of (space name, grammar bound, template dict, all_atom, legacy options)"""
    q = tier == 'quick'
    fam = []
    shapes = G.Bound(max_nodes=3, max_depth=1 if q else 2, max_open=1, max_rings=1, bonds=(),
                     ring_styles=('d',), names=['A', 'B'], names_free=True, mults=(2,) if q else (2, 3), max_mults=1)
    shapes4 = G.Bound(max_nodes=4, max_depth=2, max_open=1, max_rings=1, bonds=(), ring_styles=('d',), names=['A', 'B'],
                      names_free=True, mults=(2,), max_mults=1)
    orders = G.Bound(max_nodes=3, max_depth=1, max_open=1, max_rings=1, bonds=('.', '='), ring_styles=('d',),
                     names=['A', 'B'], names_free=False, max_bonds=2)
    aa_all = dict(BF.AA)
    cg_all = dict(BF.CG)
    aa_small = {k: BF.AA[k] for k in ('pe', 'dbl', 'surplus', 'two', 'sq2', 'cl', 'dir', 'dird')}
    cg_small = {k: BF.CG[k] for k in ('xy', 'dbl', 'surplus', 'sq', 'dir', 'dird')}
    if 'aa' in want:
        fam.append(('aa-shapes', shapes, aa_all, True, (True,)))
        fam.append(('aa-orders', orders, aa_small, True, (True, False)))
        if not q:
            fam.append(('aa-shapes4', shapes4, {k: BF.AA[k] for k in ('pe', 'two', 'sq2', 'dir', 'surplus', 'ter', 'annot', 'dbl')},
                        True, (True,)))
    if 'cg' in want:
        fam.append(('cg-shapes', shapes, cg_all, False, (True,)))
        fam.append(('cg-orders', orders, cg_small, False, (True, False)))
        if not q:
            fam.append(('cg-shapes4', shapes4, {k: BF.CG[k] for k in ('xy', 'dir', 'sq', 'surplus', 'ring')}, False, (True,)))
    # seed slice: 4-5 node base graphs over a seed-chosen template pair, both conventions
    keys = sorted(BF.AA)
    pair = {k: BF.AA[k] for k in (keys[seed % len(keys)], keys[(seed * 7 + 3) % len(keys)], 'pe')}
    slice_b = G.Bound(max_nodes=4 if q else 5, max_depth=1, max_open=1, max_rings=1, bonds=('=',), ring_styles=('d',),
                      names=['A', 'B'], names_free=False, max_bonds=1, mults=(2,), max_mults=1)
    if 'aa' in want:
        fam.append(('seed-slice', slice_b, pair, True, (True, False)))
    return fam


def plan(tier, seed, want=('aa', 'cg'), chunk=6):
    tasks = []
    for name, B, templates, all_atom, legacy in families(tier, seed, want):
        bases, ex = BF.base_strings(B)
        first = True
        for i in range(0, len(bases), chunk):
            tasks.append({'space': name, 'bases': bases[i:i + chunk], 'templates': sorted(templates.items()),
                          'all_atom': all_atom, 'legacy': legacy,
                          'pre': (ex.states, ex.transitions) if first else (0, 0)})
            first = False
    return tasks


def cases(task, R):
    """enumerate every (base, library, convention) of a task; counts decision states into R"""
    ex = Explorer(dedup=False)
    ex.states += task['pre'][0]
    ex.transitions += task['pre'][1]
    tmpl = task['templates']
    for toks in task['bases']:
        names = BF.names_used(toks)
        levels = [tmpl] * len(names) + [task['legacy']]

        def succ(prefix, levels=levels):
            if len(prefix) == len(levels):
                return []
            return [prefix + (o,) for o in levels[len(prefix)]]
        for leaf in ex.run((), succ, lambda p, levels=levels: len(p) == len(levels)):
            frags = {n: leaf[i][1] for i, n in enumerate(names)}
            for via in task.get('vias', ('string',)):
                yield {'base': G.ser(toks), 'tokens': toks, 'frags': frags, 'frag_keys': [leaf[i][0] for i in range(len(names))],
                       'all_atom': task['all_atom'], 'legacy': leaf[-1], 'via': via}
    R.add_explorer(ex)


def run_invariant(inp, check, nontrivial_rule=None):
    """resolve step by step on the real resolver; `check` is evaluated right after every resolve()
    (the next step rewrites the graphs of the previous one in place)"""
    from cgsmiles import MoleculeResolver
    s = BF.cgsmiles(inp['base'], inp['frags']) if 'string' not in inp else inp['string']
    try:
        if inp.get('via') == 'graph':
            # base graph handed over as a graph object (second constructor)
            from cgsmiles import read_cgsmiles
            fragstr = '{' + ','.join('#%s=%s' % kv for kv in inp['frags'].items()) + '}'
            r = MoleculeResolver.from_graph(fragstr, read_cgsmiles(inp['base']), last_all_atom=inp['all_atom'],
                                            legacy=inp.get('legacy', True))
        else:
            r = MoleculeResolver.from_string(s, last_all_atom=inp['all_atom'], legacy=inp.get('legacy', True))
        n = len(r.fragment_dicts)
        for i in range(n):
            coarse, fine = r.resolve()
            aa = inp['all_atom'] and i == n - 1
            res = check(coarse, fine, r.fragment_dicts[i], aa, inp)
            if res:
                return bad(res[0], None, {'string': s, 'step': i, 'detail': res[1]})
    except SyntaxError as e:
        if KEKULE_MSG in str(e):
            return Verdict(skip=True, outcome='pysmiles-refuses-to-kekulise')
        return bad('raises:SyntaxError', None, {'string': s, 'error': repr(e)[:200]})
    except Exception as e:
        return bad('raises:' + type(e).__name__, None, {'string': s, 'error': repr(e)[:200]})
    nb = sum(1 for _, _, d in fine.edges(data=True) if 'bonding' in d)
    nt = len(coarse) >= 2 if nontrivial_rule is None else nontrivial_rule(coarse, fine)
    return Verdict(nontrivial=nt, outcome='%d/%d/%d' % (len(coarse), len(fine), nb))
