"""C12 — output numbering is canonical and results depend on the input alone.

(a) numbering invariants on every result of the base graph x library family;
(b) configurations: every input again under every permutation of the fragment
    definitions, through all three constructors, and in fresh interpreters under
    several PYTHONHASHSEED values -- byte-identical canonical dumps;
(c) histories: breadth-first over sequences of resolver / reader / sampler calls
    that share one fragment library object; every output equals the reference
    for its input and the library is never modified."""
import hashlib
import itertools
import json
import os
import networkx as nx
from ..core import Explorer, Verdict, bad
from .. import own
from ..gen import grammar as G
from ..gen import basefrag as BF
from ..ref import oracles as O
from . import _resolver as RS

ID = 'C12'
RULE = ('(a,b) Base strings x fragment libraries x convention (the C02/C03 family, incl. templates with alternative compatible '
        'descriptor pairs on one atom pair); per case: numbering invariants (keys 0..n-1 sorted by fragid, contiguous blocks in '
        'base-graph order without shared atoms, atom names element+index unique per coarse node) and identical canonical dumps '
        'for every permutation of the fragment definitions and through from_string / from_graph / from_fragment_dicts (library '
        'dump unchanged); batches of the same inputs are re-resolved in fresh interpreters under each PYTHONHASHSEED of a fixed set '
        'and compared digest by digest. (c) Histories: BFS (depth 3-4) over {construct via constructor k on input x sharing one '
        'library object, resolve() on a live resolver, read_fragments into the shared library, construct a sampler over it and '
        'sample}; every resolve output must equal the single-call reference, the library dump must never change. '
        'Non-trivial = at least 2 coarse nodes / history length >= 2.')
ASSUMPTIONS = [
    'canonical dump = every node (key, all attributes) and every edge (end points, all attributes) in sorted order, JSON',
    'hash seeds are covered for the enumerated finite set only',
]
EXPLANATION = 'bounded-exhaustive configuration enumeration + explicit-state history exploration + fresh-process references'

HASHSEEDS = [0, 1, 2, 3, 4242]
EXTRA_AA = {'alt1': 'CC[>][$]', 'alt2': '[<][$]CO', 'alt3': '[$][>]N'}


def dump(g):
    nodes = []
    for n in sorted(g.nodes):
        d = {k: v for k, v in g.nodes[n].items() if k != 'graph'}
        nodes.append((n, sorted((k, repr(v)) for k, v in d.items())))
    edges = sorted((min(a, b), max(a, b), sorted((k, repr(v)) for k, v in d.items())) for a, b, d in g.edges(data=True))
    return json.dumps([nodes, edges])


def dump_pair(coarse, fine):
    cg = {str(k): sorted(coarse.nodes[k]['graph'].nodes) if coarse.nodes[k].get('graph') is not None else None
          for k in sorted(coarse.nodes)}
    return json.dumps([dump(coarse), dump(fine), cg])


def lib_dump(dicts):
    return json.dumps([{k: dump(g) for k, g in d.items()} for d in dicts], sort_keys=True)


def plan(tier, seed):
    q = tier == 'quick'
    tasks = []
    aa_keys = ('pe', 'two', 'surplus', 'sq2', 'dir', 'lab', 'annot', 'ter') if q else tuple(sorted(BF.AA))
    cg_keys = ('xy', 'dir', 'sq', 'surplus', 'w') if q else tuple(sorted(BF.CG))
    for t in RS.plan(tier, seed, chunk=8):
        if t['space'].endswith('4'):
            continue        # the 4-node families are covered by C02 / C03; here every case costs ~7 resolutions
        t = dict(t)
        t['kind'] = 'config'
        if t['space'] == 'aa-shapes':
            t['templates'] = sorted((k, BF.AA[k]) for k in aa_keys)
        if t['space'] == 'cg-shapes':
            t['templates'] = sorted((k, BF.CG[k]) for k in cg_keys)
        if t['space'] == 'aa-orders':
            t['templates'] = sorted(dict({k: BF.AA[k] for k in ('pe', 'dbl', 'two', 'dird')}, **EXTRA_AA).items())
        if t['space'] == 'seed-slice' and q:
            t['legacy'] = (True,)
        tasks.append(t)
    # long chains: more than 32 atoms, several residues of the same kind (numbering / naming far from the origin)
    tasks.append({'space': 'long-chains', 'kind': 'long'})
    # hash seed batches
    B = G.Bound(max_nodes=3, max_depth=1, max_open=1, max_rings=1, bonds=(), ring_styles=('d',), names=['A', 'B'], names_free=True)
    bases, ex = BF.base_strings(B)
    tm = dict({k: BF.AA[k] for k in ('pe', 'two', 'surplus', 'sq2', 'dir', 'lab')}, **EXTRA_AA)
    strings = []
    for toks in bases:
        names = BF.names_used(toks)
        for assign in itertools.product(sorted(tm.items()), repeat=len(names)):
            strings.append(BF.cgsmiles(G.ser(toks), {n: a[1] for n, a in zip(names, assign)}))
    strings = sorted(set(strings))
    nb = 4 if q else 8
    hs = HASHSEEDS[:3] + [1000 + seed] if q else HASHSEEDS + [1000 + seed]
    step = (len(strings) + nb - 1) // nb
    for i in range(0, len(strings), step):
        tasks.append({'space': 'hashseed', 'kind': 'hashseed', 'strings': strings[i:i + step], 'hashseeds': hs})
    # histories
    for j in range(2 if q else 4):
        tasks.append({'space': 'histories', 'kind': 'history', 'variant': j, 'depth': 3 if q else 4})
    return tasks


def resolve_all_steps(r):
    out = []
    for coarse, fine in r.resolve_iter():
        out.append(dump_pair(coarse, fine))
    return out


def evaluate(inp):
    from cgsmiles import MoleculeResolver, read_cgsmiles
    from cgsmiles.read_fragments import read_fragments
    if inp.get('kind') == 'long':
        class _R:
            def __init__(self):
                self.v = []
                self.states = self.transitions = 0

            def record(self, i, v):
                if i['string'] == inp['string']:
                    self.v.append(v)
        r = _R()
        run_long({}, r)
        return r.v[0]
    if inp.get('kind') == 'hashseed':
        return replay_hashseed(inp)
    if inp.get('kind') == 'history':
        ops, replay = history_machine(inp['library'])
        viol, state = replay([tuple(o) for o in inp['history']])
        if viol:
            return bad(viol[0], None, viol[1])
        pv, _ = replay((('new', 'string', HIST_INPUTS[0][0]), ('resolve', 0)))
        if pv:
            return bad('history:leaves-process-state-behind', None, {'then': pv[0], 'detail': pv[1]})
        return Verdict(outcome='history-ok')
    s = BF.cgsmiles(inp['base'], inp['frags'])
    aa, legacy = inp['all_atom'], inp['legacy']
    try:
        r = MoleculeResolver.from_string(s, last_all_atom=aa, legacy=legacy)
        coarse, fine = r.resolve()
        D0 = dump_pair(coarse, fine)
    except SyntaxError as e:
        if RS.KEKULE_MSG in str(e):
            return Verdict(skip=True, outcome='pysmiles-refuses-to-kekulise')
        return bad('raises:SyntaxError', None, {'string': s, 'error': repr(e)[:150]})
    except Exception as e:
        return bad('raises:' + type(e).__name__, None, {'string': s, 'error': repr(e)[:150]})
    shared = any(len(d.get('fragid', [])) > 1 for _, d in fine.nodes(data=True))
    res = O.check_numbering(coarse, fine, aa)
    if res:
        return bad(res[0], None, {'string': s, 'detail': res[1]})
    nontrivial = len(coarse) >= 2
    # same call again
    c2, f2 = MoleculeResolver.from_string(s, last_all_atom=aa, legacy=legacy).resolve()
    if dump_pair(c2, f2) != D0:
        return bad('repeat-call-differs', None, {'string': s})
    # permutations of the fragment definitions
    items = list(inp['frags'].items())
    for perm in itertools.permutations(items):
        if list(perm) == items:
            continue
        sp = BF.cgsmiles(inp['base'], dict(perm))
        cp, fp = MoleculeResolver.from_string(sp, last_all_atom=aa, legacy=legacy).resolve()
        if dump_pair(cp, fp) != D0:
            return bad('definition-order-matters', None, {'string': s, 'permuted': sp})
    # the other two constructors
    fragstr = '{' + ','.join('#%s=%s' % kv for kv in items) + '}'
    try:
        cg, fg = MoleculeResolver.from_graph(fragstr, read_cgsmiles(inp['base']), last_all_atom=aa, legacy=legacy).resolve()
        if dump_pair(cg, fg) != D0:
            return bad('from_graph-differs', None, {'string': s})
        lib = [read_fragments(fragstr, all_atom=aa)]
        before = lib_dump(lib)
        cd, fd = MoleculeResolver.from_fragment_dicts(inp['base'], lib, last_all_atom=aa, legacy=legacy).resolve()
        if dump_pair(cd, fd) != D0:
            return bad('from_fragment_dicts-differs', None, {'string': s})
        if lib_dump(lib) != before or len(lib) != 1:
            return bad('fragment-library-modified', None, {'string': s})
        # the same library object again
        cd2, fd2 = MoleculeResolver.from_fragment_dicts(inp['base'], lib, last_all_atom=aa, legacy=legacy).resolve()
        if dump_pair(cd2, fd2) != D0:
            return bad('second-use-of-library-differs', None, {'string': s})
        # a library built by hand: atoms with equal descriptor lists share ONE list object
        lib3 = [read_fragments(fragstr, all_atom=aa)]
        for g3 in lib3[0].values():
            seen = {}
            for n3, d3 in g3.nodes(data=True):
                b3 = d3.get('bonding')
                if b3:
                    d3['bonding'] = seen.setdefault(tuple(b3), b3)
        cd3, fd3 = MoleculeResolver.from_fragment_dicts(inp['base'], lib3, last_all_atom=aa, legacy=legacy).resolve()
        if dump_pair(cd3, fd3) != D0:
            return bad('library-with-shared-descriptor-lists-differs', None, {'string': s})
    except Exception as e:
        return bad('constructor-raises:' + type(e).__name__, None, {'string': s, 'error': repr(e)[:150]})
    return Verdict(nontrivial=nontrivial, outcome='%d/%d' % (len(coarse), len(fine)))


HS_SCRIPT = r'''
import sys, json, hashlib
sys.path.insert(0, %(verif)r)
from mc import repo
from mc.props import c12
from cgsmiles import MoleculeResolver
out = []
with repo.quiet():
    for s in json.loads(%(strings)r):
        try:
            c, f = MoleculeResolver.from_string(s).resolve()
            out.append(hashlib.md5(c12.dump_pair(c, f).encode()).hexdigest())
        except Exception as e:
            out.append('raises:' + type(e).__name__)
print(json.dumps(out))
'''


def run_hashseed(task, R):
    from cgsmiles import MoleculeResolver
    verif = os.path.dirname(os.path.dirname(os.path.dirname(os.path.abspath(__file__))))
    strings = task['strings']
    here = []
    for s in strings:
        try:
            c, f = MoleculeResolver.from_string(s).resolve()
            here.append(hashlib.md5(dump_pair(c, f).encode()).hexdigest())
        except Exception as e:
            here.append('raises:' + type(e).__name__)
    script = HS_SCRIPT % {'verif': verif, 'strings': json.dumps(strings)}
    results = {hs: own.fresh(script, hs) for hs in task['hashseeds']}
    for i, s in enumerate(strings):
        inp = {'kind': 'hashseed', 'string': s}
        diff = [hs for hs, r in results.items() if r[i] != here[i]]
        if diff:
            R.record(inp, bad('result-depends-on-PYTHONHASHSEED', None, {'string': s, 'hashseeds': diff}))
        else:
            R.record(inp, Verdict(nontrivial=not here[i].startswith('raises'), outcome=here[i][:8]))
    R.states += len(task['hashseeds']) + 1
    R.transitions += len(task['hashseeds']) * len(strings)


HIST_INPUTS = [
    ('{[#A][#B][#A]}', True),
    ('{[#B]1[#A][#A]1}', True),
    ('{[#A]([#B])[#B]}', True),
    ('{[#A]|3}', True),
]
HIST_LIBS = [
    '{#A=[$]CC[$][$],#B=[$]O}',
    '{#A=[>][$]CO[<],#B=[<][$]N}',
    '{#A=[!]CC[!],#B=[!]C[$]O}',
    '{#A=[$]cc[$],#B=[$]cc[$]}',
]


def history_machine(fragstr):
    """returns (ops, replay) for histories over one shared library built from fragstr"""
    from cgsmiles import MoleculeResolver, read_cgsmiles
    from cgsmiles.read_fragments import read_fragments
    from cgsmiles.sample import MoleculeSampler
    inputs = [b for b, _ in HIST_INPUTS]
    # references, one call each in isolation
    ref = {}
    for b in inputs:
        try:
            c, f = MoleculeResolver.from_string(b + '.' + fragstr).resolve()
            ref[b] = dump_pair(c, f)
        except Exception as e:
            ref[b] = 'raises:' + type(e).__name__
    ops = [('new', k, b) for k in ('string', 'graph', 'dicts') for b in inputs[:3]] + \
          [('resolve', 0), ('resolve', 1), ('reread',), ('sampler',), ('mass',)]

    def replay(hist):
        """fresh shared library, operations replayed; returns (violation or None, canonical state)"""
        lib = [read_fragments(fragstr)]
        lib0 = lib_dump(lib)
        live = []
        for op in hist:
            op = tuple(op)
            out = None
            try:
                if op[0] == 'new':
                    _, k, b = op
                    if k == 'string':
                        r = MoleculeResolver.from_string(b + '.' + fragstr)
                    elif k == 'graph':
                        r = MoleculeResolver.from_graph(fragstr, read_cgsmiles(b))
                    else:
                        r = MoleculeResolver.from_fragment_dicts(b, lib)
                    live.append([r, b, 0])
                elif op[0] == 'resolve':
                    if op[1] < len(live) and live[op[1]][2] == 0:
                        r, b, _ = live[op[1]]
                        c, f = r.resolve()
                        live[op[1]][2] = 1
                        out = (b, dump_pair(c, f))
                elif op[0] == 'reread':
                    read_fragments(fragstr, fragment_dict=lib[0])
                elif op[0] == 'mass':
                    # public helpers called on a plain molecule graph (no fragment annotation) between resolutions
                    import pysmiles
                    from cgsmiles.pysmiles_utils import compute_mass, rebuild_h_atoms
                    compute_mass(pysmiles.read_smiles('CCO'))
                    rebuild_h_atoms(pysmiles.read_smiles('CC=O'))
                elif op[0] == 'sampler':
                    try:
                        sm = MoleculeSampler(lib[0], polymer_reactivities={'$': 1, '>': 1, '<': 1, '!': 0}, seed=3)
                        sm.sample(40)
                    except (IndexError, ValueError, OSError, KeyError):
                        pass
            except SyntaxError as e:
                out = (op[2] if op[0] == 'new' else live[op[1]][1], 'raises:SyntaxError')
            except Exception as e:
                return ('history:raises:' + type(e).__name__, {'op': list(op), 'error': repr(e)[:150]}), None
            if out is not None and out[1] != ref[out[0]]:
                return ('history:output-differs-from-single-call', {'input': out[0], 'op': list(op)}), None
            if lib_dump(lib) != lib0 or len(lib) != 1:
                return ('history:shared-library-modified', {'op': list(op)}), None
        state = (tuple((b, st) for _, b, st in live), hashlib.md5(lib_dump(lib).encode()).hexdigest())
        return None, state
    return ops, replay


def run_history(task, R):
    fragstr = HIST_LIBS[task['variant'] % len(HIST_LIBS)]
    ops, replay = history_machine(fragstr)
    ex = Explorer(dedup=True)
    bad_hist = set()

    def succ(hist):
        if len(hist) >= task['depth'] or hist in bad_hist:
            return []
        return [hist + (op,) for op in ops]
    probe = (('new', 'string', HIST_INPUTS[0][0]), ('resolve', 0))
    for hist in ex.run_bfs((), succ, lambda h: len(h) >= 1):
        viol, state = replay(hist)
        inp = {'kind': 'history', 'library': fragstr, 'history': [list(o) for o in hist]}
        if viol:
            bad_hist.add(hist)
            R.record(inp, bad(viol[0], None, dict(viol[1], history=[list(o) for o in hist], library=fragstr)))
        else:
            # did this history leave something behind in the process (module-level state)?  A fresh resolution
            # right after it must still give the single-call reference.
            pv, _ = replay(probe)
            if pv:
                R.record(inp, bad('history:leaves-process-state-behind', None,
                                  {'history': [list(o) for o in hist], 'library': fragstr, 'then': pv[0], 'detail': pv[1]}))
                R.cap('process state polluted by history %r; exploration of this task stopped' % (hist,))
                break
            R.record(inp, Verdict(nontrivial=len(hist) >= 2, outcome='h%d:%s' % (len(hist), hashlib.md5(repr(state).encode()).hexdigest()[:6])))
    R.add_explorer(ex)


def replay_hashseed(inp):
    from cgsmiles import MoleculeResolver
    verif = os.path.dirname(os.path.dirname(os.path.dirname(os.path.abspath(__file__))))
    s = inp['string']
    try:
        c, f = MoleculeResolver.from_string(s).resolve()
        here = hashlib.md5(dump_pair(c, f).encode()).hexdigest()
    except Exception as e:
        here = 'raises:' + type(e).__name__
    script = HS_SCRIPT % {'verif': verif, 'strings': json.dumps([s])}
    diff = [hs for hs in HASHSEEDS + list(range(5, 12)) if own.fresh(script, hs)[0] != here]
    if diff:
        return bad('result-depends-on-PYTHONHASHSEED', None, {'string': s, 'hashseeds': diff})
    return Verdict(outcome=here[:8])


LONG = [
    '{[#OHter][#PEO]|8[#OHter]}.{#PEO=[$]COC[$],#OHter=[$]O}',
    '{[#Hter][#PS]|6[#Hter]}.{#PS=[$]CC[$]c1ccccc1,#Hter=[$][H]}',
    '{[#A]([#B]|3)|4}.{#A=[$]CC([$])[$],#B=[$]CO[$]}',
    '{[#PMA]|12}.{#PMA=[>]CC[<]C(=O)OC}',
    '{[#X]|10}.{#X=[$][#P][#Q][#R][#S][$]}',
]


def run_long(task, R):
    from cgsmiles import MoleculeResolver
    for s in LONG:
        aa = '[#P]' not in s
        inp = {'kind': 'long', 'string': s, 'all_atom': aa}
        try:
            coarse, fine = MoleculeResolver.from_string(s, last_all_atom=aa).resolve()
        except Exception as e:
            R.record(inp, bad('raises:' + type(e).__name__, None, {'string': s}))
            continue
        res = O.check_numbering(coarse, fine, aa) or O.check_mapping(coarse, fine, MoleculeResolver.from_string(s, last_all_atom=aa).fragment_dicts[0], aa)
        if res:
            R.record(inp, bad(res[0], None, {'string': s, 'detail': res[1]}))
        else:
            R.record(inp, Verdict(outcome='long:%d' % len(fine)))
    R.states += len(LONG) + 1
    R.transitions += len(LONG)


def run_task(task, R):
    if task['kind'] == 'long':
        return run_long(task, R)
    if task['kind'] == 'hashseed':
        return run_hashseed(task, R)
    if task['kind'] == 'history':
        return run_history(task, R)
    for inp in RS.cases(task, R):
        R.record(inp, evaluate(inp))


def sanity(total, tier):
    return ['fewer than 20 distinct outcomes'] if len(total.outcomes) < 20 else []
