"""C11 — virtual nodes and zero-order edges are inert.

Every resolvable (base string, fragment library) of the bounded family is
crossed with every way of inserting 1-2 fragment-less nodes (first / after any
node as zero-order branch / last; optionally with an additional zero-order
ring bond to another node) and 0-1 extra zero-order ring bond between two real
nodes.  The result must be the result of the un-decorated string; the negative
family attaches the fragment-less node with order >= 1 and must be rejected."""
import itertools
import json
import networkx as nx
from ..core import Explorer, Verdict, bad
from ..gen import grammar as G
from ..gen import basefrag as BF
from . import _resolver as RS

ID = 'C11'
RULE = ('Base strings (<=3-4 nodes, branches, rings, names over {A,B}) x fragment libraries (atomistic and coarse templates) x '
        'decoration: position of 1-2 virtual nodes (prefix, zero-order branch after any node, suffix, several of them, extra '
        'zero-order ring bond from the virtual node to any other node) and an extra zero-order ring bond between any two '
        'non-adjacent real nodes; all enumerated. Oracle: fine graph identical (keys, attributes, edges) to the undecorated '
        'resolution after mapping coarse keys; every real coarse node owns the same atoms; virtual nodes own none; no fine '
        'edge across an order-0 edge. Negative family: the virtual node attached with order 1-2 must raise SyntaxError. '
        'Non-trivial = at least one inserted node or edge.')
ASSUMPTIONS = ['pysmiles refusing to kekulise puts the undecorated input outside the domain']
EXPLANATION = 'bounded-exhaustive enumeration of decorations of resolvable strings, differential oracle on the real resolver'

AA_T = ('pe', 'dir', 'two', 'ter', 'sq2', 'dbl')
CG_T = ('xy', 'dir', 'ring', 'sq')


def plan(tier, seed):
    q = tier == 'quick'
    B = G.Bound(max_nodes=3 if q else 4, max_depth=1, max_open=1, max_rings=1, bonds=(), ring_styles=('d',),
                names=['A', 'B'], names_free=True)
    bases, ex = BF.base_strings(B)
    tasks = []
    for fam, tm, aa in (('aa', {k: BF.AA[k] for k in AA_T}, True), ('cg', {k: BF.CG[k] for k in CG_T}, False)):
        for i in range(0, len(bases), 3):
            tasks.append({'space': 'virtual-' + fam, 'bases': bases[i:i + 3], 'templates': sorted(tm.items()), 'all_atom': aa,
                          'pre': (ex.states, ex.transitions) if i == 0 else (0, 0), 'two': not q})
    # seed slice: 5-node chains/branches with one seed-chosen template pair, all decorations incl. two virtual nodes
    B5 = G.Bound(max_nodes=4 if q else 5, max_depth=1, max_open=1, max_rings=1, bonds=(), ring_styles=('d',), names=['A', 'B'], names_free=False)
    b5, ex5 = BF.base_strings(B5)
    b5 = [b for b in b5 if sum(1 for t in b if t[0] == 'n') == (4 if q else 5)]
    keys = sorted(AA_T)
    tm = {k: BF.AA[k] for k in (keys[seed % len(keys)], keys[(seed // 3 + 1) % len(keys)])}
    for i in range(0, len(b5), 4):
        tasks.append({'space': 'seed-slice', 'bases': b5[i:i + 4], 'templates': sorted(tm.items()), 'all_atom': True,
                      'pre': (ex5.states, ex5.transitions) if i == 0 else (0, 0), 'two': True})
    return tasks


def node_positions(toks):
    """token index after which something may be inserted for node i (after its ring markers)"""
    pos = []
    for i, t in enumerate(toks):
        if t[0] == 'n':
            j = i + 1
            while j < len(toks) and toks[j][0] in ('r',) or (j + 1 < len(toks) and toks[j][0] == 'b' and toks[j + 1][0] == 'r'):
                j += 1
            pos.append(j)
    return pos


def first_positions(toks):
    return [i + 1 for i, t in enumerate(toks) if t[0] == 'n']


def decorate(toks, deco):
    """deco: list of operations, applied right-to-left on token positions.
    ('pre',)            [#V]. at the start
    ('suf',)            .[#V] at the end (depth 0)
    ('br', i)           .([#V]) after node i
    ('brring', i, j)    .([#V]) after node i, V additionally zero-order ring bonded to node j
    ('zring', i, j)     extra zero-order ring bond between real nodes i and j
    order: sym for the virtual attachment ('.' = inert, '' or '=' = negative family)"""
    toks = list(toks)
    pos = node_positions(toks)
    fpos = first_positions(toks)
    ins = []        # (position, tokens, tie-break)
    rid = 7
    for k, d in enumerate(deco):
        sym = d[-1]
        vtok = ('n', 'V%d' % k, '')
        bond = [('b', sym)] if sym else []
        if d[0] == 'pre':
            ins.append((0, [vtok] + bond, k))
        elif d[0] == 'suf':
            ins.append((len(toks), bond + [vtok], k))
        elif d[0] == 'sufsame':
            # a second fragment-less node with the NAME of the first one
            ins.append((len(toks), bond + [('n', 'V0', '')], k))
        elif d[0] == 'br':
            ins.append((pos[d[1]], bond + [('(',), vtok, (')',)], k))
        elif d[0] == 'brring':
            # the order symbol belongs in front of the marker that comes first in the string
            if d[2] < d[1] or (d[2] == d[1]):
                ins.append((pos[d[1]], bond + [('(',), vtok, ('r', rid, 'd'), (')',)], k))
                ins.append((pos[d[2]], [('b', '.'), ('r', rid, 'd')], k - 100))
            else:
                ins.append((pos[d[1]], bond + [('(',), vtok, ('b', '.'), ('r', rid, 'd'), (')',)], k))
                ins.append((pos[d[2]], [('r', rid, 'd')], k - 100))
            rid += 1
        elif d[0] == 'zring':
            ins.append((pos[d[1]], [('b', '.'), ('r', rid, 'd')], k - 100))
            ins.append((pos[d[2]], [('r', rid, 'd')], k - 100))
            rid += 1
        elif d[0] == 'zring-first':
            # the zero-order marker is written directly after the node, in front of its other ring markers
            ins.append((fpos[d[1]], [('b', '.'), ('r', rid, 'd')], k - 200))
            ins.append((pos[d[2]], [('r', rid, 'd')], k - 100))
            rid += 1
    # ring markers must directly follow the node: insert them before branches at the same position
    ins.sort(key=lambda x: (x[0], x[2]), reverse=True)
    for p, ts, _ in ins:
        toks[p:p] = ts
    return tuple(toks)


def decorations(toks, two):
    n = sum(1 for t in toks if t[0] == 'n')
    try:
        nodes, edges = G.denote(toks)
    except G.NotSimple:
        return
    single = [('pre',), ('suf',)] + [('br', i) for i in range(n)]
    for i in range(n):
        for j in range(n):
            if i != j:
                single.append(('brring', i, j))
    # suffix only valid when the string ends at depth 0 -- always true for complete sentences
    for d in single:
        yield [d + ('.',)], 'inert'
        yield [d + ('',)], 'negative'
        if d[0] in ('pre', 'br'):
            yield [d + ('=',)], 'negative'
    # a correctly attached fragment-less node first, then a wrongly bonded one of the same name (and two inert ones)
    yield [('pre', '.'), ('sufsame', '')], 'negative'
    yield [('br', 0, '.'), ('sufsame', '')], 'negative'
    yield [('pre', '.'), ('sufsame', '.')], 'inert'
    for i in range(n):
        for j in range(i + 1, n):
            if (i, j) not in edges:
                yield [('zring', i, j, '.')], 'inert'
                yield [('zring', i, j, '.'), ('suf', '.')], 'inert'
                if toks[first_positions(toks)[i]][0] == 'r' if first_positions(toks)[i] < len(toks) else False:
                    yield [('zring-first', i, j, '.')], 'inert'
    if two:
        for a, b in itertools.combinations(single[:2 + n], 2):
            yield [a + ('.',), b + ('.',)], 'inert'
        yield [('pre', '.'), ('pre', '.')], 'inert'


def run_task(task, R):
    ex = Explorer(dedup=False)
    ex.states += task['pre'][0]
    ex.transitions += task['pre'][1]
    tmpl = task['templates']
    for toks in task['bases']:
        names = BF.names_used(toks)
        decos = list(decorations(toks, task['two']))
        levels = [tmpl] * len(names) + [list(range(len(decos)))]

        def succ(prefix, levels=levels):
            if len(prefix) == len(levels):
                return []
            return [prefix + (o,) for o in levels[len(prefix)]]
        for leaf in ex.run((), succ, lambda p, levels=levels: len(p) == len(levels)):
            frags = {n: leaf[i][1] for i, n in enumerate(names)}
            deco, kind = decos[leaf[-1]]
            inp = {'tokens': toks, 'frags': frags, 'deco': deco, 'kind': kind, 'all_atom': task['all_atom']}
            R.record(inp, evaluate(inp))
    R.add_explorer(ex)


def fine_dump(fine, keymap):
    nodes = []
    for n in sorted(fine.nodes):
        d = dict(fine.nodes[n])
        d['fragid'] = [keymap.get(k, ('virtual', k)) for k in d.get('fragid', [])]
        d.pop('contraction', None)
        nodes.append((n, sorted((k, repr(v)) for k, v in d.items())))
    edges = sorted((min(a, b), max(a, b), sorted((k, repr(v)) for k, v in d.items())) for a, b, d in fine.edges(data=True))
    return nodes, edges


def evaluate(inp):
    from cgsmiles import MoleculeResolver
    toks = tuple(tuple(t) for t in inp['tokens'])
    deco = [tuple(d) for d in inp['deco']]
    base = G.ser(toks)
    s0 = BF.cgsmiles(base, inp['frags'])
    try:
        c0, f0 = MoleculeResolver.from_string(s0, last_all_atom=inp['all_atom']).resolve_all()
    except Exception as e:
        return Verdict(skip=True, outcome='undecorated-string-not-resolvable:' + type(e).__name__)
    dtoks = decorate(toks, deco)
    s1 = BF.cgsmiles(G.ser(dtoks), inp['frags'])
    if inp['kind'] == 'negative':
        try:
            MoleculeResolver.from_string(s1, last_all_atom=inp['all_atom']).resolve_all()
        except SyntaxError:
            return Verdict(outcome='rejected')
        except Exception as e:
            return bad('negative:wrong-exception:' + type(e).__name__, 'SyntaxError', {'string': s1, 'error': repr(e)[:150]})
        return bad('negative:fragment-less-node-with-real-edge-accepted', 'SyntaxError', {'string': s1})
    try:
        c1, f1 = MoleculeResolver.from_string(s1, last_all_atom=inp['all_atom']).resolve_all()
    except Exception as e:
        return bad('raises:' + type(e).__name__, None, {'string': s1, 'undecorated': s0, 'error': repr(e)[:150]})
    # real nodes correspond in order of appearance
    real1 = [k for k in sorted(c1.nodes) if not str(c1.nodes[k].get('fragname', '')).startswith('V')]
    virt1 = [k for k in sorted(c1.nodes) if str(c1.nodes[k].get('fragname', '')).startswith('V')]
    real0 = sorted(c0.nodes)
    if len(real1) != len(real0):
        return bad('coarse-node-count', len(real0), {'string': s1, 'real': len(real1)})
    keymap1 = {k: i for i, k in enumerate(real1)}
    keymap0 = {k: i for i, k in enumerate(real0)}
    if fine_dump(f1, keymap1) != fine_dump(f0, keymap0):
        same_shape = nx.is_isomorphic(f0, f1)
        return bad('fine-graph-differs' + ('' if not same_shape else ':attributes-or-numbering'), None,
                   {'string': s1, 'undecorated': s0, 'n0': len(f0), 'n1': len(f1), 'e0': len(f0.edges), 'e1': len(f1.edges)})
    for k1, k0 in zip(real1, real0):
        g1 = c1.nodes[k1].get('graph')
        g0 = c0.nodes[k0].get('graph')
        if set(g1.nodes if g1 is not None else ()) != set(g0.nodes if g0 is not None else ()):
            return bad('coarse-node-owns-other-atoms', sorted(g0.nodes), {'string': s1, 'coarse': k1, 'owns': sorted(g1.nodes) if g1 is not None else None})
    for k in virt1:
        g = c1.nodes[k].get('graph')
        if g is not None and len(g):
            return bad('virtual-node-owns-atoms', [], {'string': s1, 'coarse': k, 'owns': sorted(g.nodes)})
    for a, b, d in c1.edges(data=True):
        if d.get('order') == 0:
            ga, gb = c1.nodes[a].get('graph'), c1.nodes[b].get('graph')
            if ga is None or gb is None:
                continue
            only_a = {n for n in ga.nodes if len(f1.nodes[n]['fragid']) == 1}
            only_b = {n for n in gb.nodes if len(f1.nodes[n]['fragid']) == 1}
            if any(f1.has_edge(x, y) for x in only_a for y in only_b) and not c0.has_edge(keymap1.get(a, -1), keymap1.get(b, -2)):
                return bad('bond-across-zero-order-edge', None, {'string': s1, 'edge': (a, b)})
    # history on a caller-owned base graph: first resolved with a library that defines the inserted nodes, then again
    # (same graph object) with the library in which they are virtual; the second result must be the fresh one
    if virt1:
        from cgsmiles import read_cgsmiles
        vnames = sorted({c1.nodes[k]['fragname'] for k in virt1})
        extra = ','.join('#%s=%s' % (v, '[$]O' if inp['all_atom'] else '[$][#Q]') for v in vnames)
        lib0 = s1.split('.{', 1)[1]
        lib_def = '{' + lib0[:-1] + ',' + extra + '}'
        lib_virt = '{' + lib0
        try:
            g = read_cgsmiles(G.ser(dtoks))
            MoleculeResolver.from_graph(lib_def, g, last_all_atom=inp['all_atom']).resolve_all()
            c2, f2 = MoleculeResolver.from_graph(lib_virt, g, last_all_atom=inp['all_atom']).resolve_all()
        except Exception as e:
            return bad('history:raises:' + type(e).__name__, None, {'string': s1, 'first_library': lib_def, 'error': repr(e)[:150]})
        if fine_dump(f2, keymap1) != fine_dump(f1, keymap1):
            return bad('history:fine-graph-differs-after-reuse-of-the-base-graph', None, {'string': s1, 'first_library': lib_def})
        for k in sorted(c2.nodes):
            g2 = c2.nodes[k].get('graph')
            own = {n for n, d in f2.nodes(data=True) if k in d.get('fragid', [])}
            if set(g2.nodes if g2 is not None else ()) != own:
                return bad('history:coarse-node-carries-stale-atoms', sorted(own),
                           {'string': s1, 'first_library': lib_def, 'coarse': k, 'carries': sorted(g2.nodes) if g2 is not None else None})
        # ... and once more after the caller turned one zero-order edge of a virtual node into a real bond: the
        # node is no longer virtual and has to be rejected
        vk = [k for k in sorted(g.nodes) if g.nodes[k]['fragname'] in vnames and g.degree(k) > 0]
        if vk:
            nb = sorted(g[vk[0]])[0]
            g.edges[vk[0], nb]['order'] = 1
            try:
                MoleculeResolver.from_graph(lib_virt, g, last_all_atom=inp['all_atom']).resolve_all()
            except SyntaxError:
                pass
            except Exception as e:
                return bad('history:wrong-exception-after-edge-became-real:' + type(e).__name__, 'SyntaxError', {'string': s1, 'error': repr(e)[:150]})
            else:
                return bad('history:fragment-less-node-accepted-after-edge-became-real', 'SyntaxError', {'string': s1, 'edge': [vk[0], nb]})
    return Verdict(outcome='%d/%d/%s' % (len(c1), len(f1), len(deco)))


def sanity(total, tier):
    return ['fewer than 15 distinct outcomes'] if len(total.outcomes) < 15 else []
