import argparse
import importlib
import json
import os
import re
import sys
import time

from . import core

HERE = os.path.dirname(os.path.dirname(os.path.abspath(__file__)))


def load_findings(prop):
    path = os.path.join(HERE, 'known_findings.json')
    if not os.path.exists(path):
        return []
    data = json.load(open(path))
    return [f for f in data.get('findings', []) if f['property'] == prop and f.get('status') == 'known']


def generic_match(viol, finding):
    """Defect-aware signature: every given key must match."""
    sig = finding['signature']
    txt = viol['input'] if isinstance(viol['input'], str) else json.dumps(viol['input'], sort_keys=True)
    if 'space' in sig and viol.get('space') not in ([sig['space']] if isinstance(sig['space'], str) else sig['space']):
        return False
    if 'cls' in sig and viol['cls'] != sig['cls']:
        return False
    if 'cls_regex' in sig and not re.fullmatch(sig['cls_regex'], viol['cls']):
        return False
    if 'input_regex' in sig and not re.search(sig['input_regex'], txt):
        return False
    if 'input_not_regex' in sig and re.search(sig['input_not_regex'], txt):
        return False
    if 'input_equals' in sig and viol['input'] != sig['input_equals']:
        return False
    if 'observed_regex' in sig and not re.search(sig['observed_regex'], json.dumps(viol.get('observed'), sort_keys=True, default=str)):
        return False
    return True


def jsonable(x):
    return json.loads(json.dumps(x, default=str))


def main(argv):
    ap = argparse.ArgumentParser()
    ap.add_argument('prop')
    ap.add_argument('--tier', default=os.environ.get('VERIF_TIER', 'quick'), choices=['quick', 'thorough'])
    ap.add_argument('--jobs', type=int, default=int(os.environ.get('VERIF_JOBS', '0')) or (os.cpu_count() or 4))
    ap.add_argument('--replay')
    ap.add_argument('--budget', type=float, default=None)
    ap.add_argument('--no-evidence', action='store_true')
    ap.add_argument('--only', default=None, help='run only spaces matching this regex (debug; evidence not written)')
    args = ap.parse_args(argv)
    prop = args.prop.upper()
    seed = int(os.environ.get('VERIF_SEED', '0') or 0)

    from . import repo  # noqa: F401  (imports /repo's cgsmiles)
    mod = importlib.import_module('mc.props.' + prop.lower())

    if args.replay:
        return replay(mod, prop, args.replay)

    t0 = time.time()
    tasks = mod.plan(args.tier, seed)
    if args.only:
        tasks = [t for t in tasks if re.search(args.only, t.get('space', 'main'))]
        args.no_evidence = True
    findings = load_findings(prop)
    mod_matcher = getattr(mod, 'classify', None)

    def matcher(v):
        for f in findings:
            if (mod_matcher(v, f) if mod_matcher else generic_match(v, f)):
                return f['id']
        return None
    total, errors = core.run_tasks(mod, tasks, args.jobs, budget=args.budget, matcher=matcher if findings else None)
    wall = time.time() - t0

    if errors:
        for task, err in errors[:3]:
            sys.stderr.write('HARNESS ERROR in task %r\n%s\n' % (task, err))
        print('HARNESS-ERROR property=%s tasks_failed=%d' % (prop, len(errors)))
        return 2

    # vacuity guards
    problems = []
    if total.evaluations == 0:
        problems.append('no case was evaluated')
    if hasattr(mod, 'sanity') and total.nviol == 0:
        # vacuity guard for runs that would otherwise report success
        problems.extend(mod.sanity(total, args.tier) or [])
    if problems and not args.only:
        print('HARNESS-ERROR property=%s %s' % (prop, '; '.join(problems)))
        return 2

    # triage: known findings (recognised at record time, before trimming) vs new violations
    fmap = {f['id']: f for f in findings}
    hit = {}
    fresh = []
    total.violations.sort(key=lambda it: (len(json.dumps(it['input'], default=str)), json.dumps(it['input'], default=str)))
    seen_inputs = set()
    for v in total.violations:
        key = json.dumps(v['input'], sort_keys=True, default=str)
        if key in seen_inputs:
            continue
        seen_inputs.add(key)
        if v.get('known'):
            if v['known'] not in hit:
                hit[v['known']] = [fmap[v['known']], total.known_counts[v['known']], v]
        else:
            fresh.append(v)
    for fid, (f, n, w) in sorted(hit.items()):
        print('KNOWN-FINDING: property=%s %s %s [witness %s]' % (prop, fid, f['text'], json.dumps(w['input'], default=str)[:200]))
    rc = 0
    vdir = os.path.join(HERE, 'replays', prop)
    if fresh:
        os.makedirs(vdir, exist_ok=True)
        for old in os.listdir(vdir):
            if old.startswith('viol_'):
                os.unlink(os.path.join(vdir, old))
        seen_cls = {}
        k = 0
        for v in fresh:
            if seen_cls.get(v['cls'], 0) >= 3 or k >= 12:
                continue
            seen_cls[v['cls']] = seen_cls.get(v['cls'], 0) + 1
            path = os.path.join(vdir, 'viol_%02d.json' % k)
            k += 1
            json.dump(jsonable({'property': prop, 'tier': args.tier, 'seed': seed, **v}), open(path, 'w'), indent=1)
            print('VIOLATION property=%s replay=%s cls=%s input=%s' % (prop, path, v['cls'], json.dumps(v['input'], default=str)[:300]))
        rc = 1

    if not args.no_evidence:
        write_evidence(mod, prop, args, seed, total, wall, len(fresh), hit, len(tasks))
    print('%s tier=%s seed=%d tasks=%d states=%d transitions=%d evaluated=%d nontrivial=%d out_of_domain=%d '
          'outcomes=%d violations=%d (new %d) exhaustive=%s wall=%.1fs' % (
              prop, args.tier, seed, len(tasks), total.states, total.transitions, total.evaluations,
              total.nontrivial, total.skipped, len(total.outcomes), total.nviol, len(fresh),
              total.exhaustive, wall))
    for k, c in total.spaces.items():
        print('   space %-28s %s' % (k, dict(c)))
    if total.viol_classes:
        print('   violation classes:', dict(total.viol_classes))
    return rc


def write_evidence(mod, prop, args, seed, total, wall, nfresh, hit, ntasks):
    cov = {
        'states': total.states,
        'transitions': total.transitions,
        'traces_validated_against_impl': total.evaluations - total.skipped,
        'evaluations': total.evaluations,
        'distinct_nontrivial': total.nontrivial,
        'out_of_domain': total.skipped,
        'distinct_outcomes': len(total.outcomes),
        'rule': mod.RULE,
        'samples': jsonable(total.samples[:8]),
        'exhaustive': bool(total.exhaustive),
        'caps': total.caps,
        'tasks': ntasks,
        'spaces': {k: dict(c) for k, c in total.spaces.items()},
        'counters': {k: v for k, v in sorted(total.counters.items())},
        'known_findings_hit': {fid: n for fid, (f, n, w) in hit.items()},
        'violation_classes': dict(total.viol_classes),
        'explanation': getattr(mod, 'EXPLANATION', ''),
        'jobs': args.jobs,
    }
    ev = {
        'property_id': prop,
        'tier': args.tier,
        'seed': seed,
        'level': 'model_checking',
        'coverage': cov,
        'assumptions': list(mod.ASSUMPTIONS),
        'wall_s': round(wall, 2),
        'violations': nfresh,
    }
    os.makedirs(os.path.join(HERE, 'evidence'), exist_ok=True)
    path = os.path.join(HERE, 'evidence', prop + '.json')
    tmp = path + '.tmp'
    json.dump(ev, open(tmp, 'w'), indent=1, sort_keys=True)
    os.replace(tmp, path)


def replay(mod, prop, path):
    from . import repo
    data = json.load(open(path))
    with repo.quiet():
        v = mod.evaluate(data['input']) if not hasattr(mod, 'replay') else mod.replay(data)
    if v.skip:
        print('REPLAY property=%s outside-domain' % prop)
        return 0
    if v.ok:
        print('REPLAY property=%s holds on %s' % (prop, path))
        return 0
    print('VIOLATION property=%s replay=%s cls=%s' % (prop, path, v.cls))
    print('  expected:', json.dumps(v.expected, default=str)[:600])
    print('  observed:', json.dumps(v.observed, default=str)[:600])
    return 1
