"""Molecule models, their enumeration, cutting into fragments and rendering as
CGsmiles (reference side of C01 / C09 / C10 / C15 / C18).

A molecule model is JSON-able:  {'atoms': [[element, charge, aromatic], ...], 'bonds': [[a, b, order], ...]}
"""
import itertools
import networkx as nx

# R-valence: element x charge -> allowed valences
VAL = {('C', 0): [4], ('N', 0): [3, 5], ('O', 0): [2], ('S', 0): [2, 4, 6], ('P', 0): [3, 5],
       ('F', 0): [1], ('Cl', 0): [1], ('Br', 0): [1], ('B', 0): [3],
       ('N', 1): [4], ('O', -1): [1], ('O', 1): [3], ('N', -1): [2], ('S', -1): [1], ('C', -1): [3],
       ('S', 1): [3], ('P', 1): [4]}


def max_val(el, ch):
    return VAL[(el, ch)][-1]


def ref_hcount(el, ch, bond_sum):
    ok = [v for v in VAL[(el, ch)] if v >= bond_sum - 1e-9]
    if not ok:
        return None
    return int(round(ok[0] - bond_sum))


def to_graph(mol):
    g = nx.Graph()
    for i, (el, ch, ar) in enumerate(mol['atoms']):
        g.add_node(i, element=el, charge=ch, aromatic=bool(ar))
    for a, b, o in mol['bonds']:
        g.add_edge(a, b, order=o)
    return g


def result_graph(mol):
    """the molecule as it must come back: 'kekule' (if given) replaces the written aromatic orders of rings that show
    no delocalisation-induced equivalence (thiophene, furan, pyrrole: pysmiles returns them kekulised)"""
    g = to_graph(mol)
    for a, b, o in mol.get('kekule', []):
        g.edges[a, b]['order'] = o
    return g


def mk(atoms, bonds):
    out = []
    for a in atoms:
        if isinstance(a, (tuple, list)):
            el, ch = a[0], a[1]
        else:
            el, ch = a, 0
        ar = el[0].islower()
        out.append([el.capitalize() if ar else el, ch, ar])
    return {'atoms': out, 'bonds': [list(b) for b in bonds]}


# ----------------------------------------------------------------- enumeration by growth
def canon(atoms, bonds):
    n = len(atoms)
    best = None
    for perm in itertools.permutations(range(n)):
        # perm[i] = new index of old atom i
        a2 = [None] * n
        for i, p in enumerate(perm):
            a2[p] = atoms[i]
        b2 = tuple(sorted((min(perm[a], perm[b]), max(perm[a], perm[b]), o) for a, b, o in bonds))
        key = (tuple(a2), b2)
        if best is None or key < best:
            best = key
    return best


def grow_succ(state, elements, max_atoms, orders=(1, 2, 3), rings=True):
    atoms, bonds = state
    n = len(atoms)
    sums = [0] * n
    adj = set()
    for a, b, o in bonds:
        sums[a] += o
        sums[b] += o
        adj.add((a, b))
    out = []
    if n < max_atoms:
        for i in range(n):
            for o in orders:
                if sums[i] + o > max_val(*atoms[i]):
                    continue
                for el in elements:
                    if o > max_val(*el):
                        continue
                    out.append(canon(atoms + (el,), bonds + ((i, n, o),)))
    if rings and n >= 3:
        for i in range(n):
            for j in range(i + 1, n):
                if (i, j) in adj:
                    continue
                for o in orders:
                    if sums[i] + o > max_val(*atoms[i]) or sums[j] + o > max_val(*atoms[j]):
                        continue
                    out.append(canon(atoms, bonds + ((i, j, o),)))
    return out


def state_to_mol(state):
    atoms, bonds = state
    return {'atoms': [[el, ch, False] for el, ch in atoms], 'bonds': [list(b) for b in bonds]}


# ----------------------------------------------------------------- feature molecules (5-12 heavy atoms)
def ring6(atoms, subst=()):
    """aromatic six ring (atoms given lower case) + substituents [(ring_pos, element, order)]"""
    a = list(atoms)
    bonds = [(i, (i + 1) % 6, 1.5) for i in range(6)]
    for pos, el, o in subst:
        a.append(el)
        bonds.append((pos, len(a) - 1, o))
    return mk(a, bonds)


def ring5(atoms, kek, subst=(), arom_h=()):
    """five-membered hetero-aromatic ring written with aromatic symbols; kek = orders of ring bonds (i, i+1) as returned"""
    a = list(atoms)
    bonds = [(i, (i + 1) % 5, 1.5) for i in range(5)]
    kekule = [[i, (i + 1) % 5, o] for i, o in enumerate(kek)]
    for pos, el, o in subst:
        a.append(el)
        bonds.append((pos, len(a) - 1, o))
    m = mk(a, bonds)
    m['kekule'] = kekule
    if arom_h:
        m['arom_h'] = list(arom_h)
    return m


FEATURE = {
    'ethanolamine': mk(['O', 'C', 'C', 'N'], [(0, 1, 1), (1, 2, 1), (2, 3, 1)]),
    'acetate': mk(['C', 'C', 'O', ('O', -1)], [(0, 1, 1), (1, 2, 2), (1, 3, 1)]),
    'propylammonium': mk(['C', 'C', 'C', ('N', 1)], [(0, 1, 1), (1, 2, 1), (2, 3, 1)]),
    'butyronitrile': mk(['C', 'C', 'C', 'N'], [(0, 1, 1), (1, 2, 1), (2, 3, 3)]),
    'pentadiene': mk(['C', 'C', 'C', 'C', 'C'], [(0, 1, 2), (1, 2, 1), (2, 3, 2), (3, 4, 1)]),
    'dmso': mk(['C', 'S', 'O', 'C'], [(0, 1, 1), (1, 2, 2), (1, 3, 1)]),
    'sulfone': mk(['C', 'S', 'O', 'O', 'C'], [(0, 1, 1), (1, 2, 2), (1, 3, 2), (1, 4, 1)]),
    'phosphate': mk(['C', 'O', 'P', 'O', ('O', -1), 'O', 'C'],
                    [(0, 1, 1), (1, 2, 1), (2, 3, 2), (2, 4, 1), (2, 5, 1), (5, 6, 1)]),
    'cyclohexene': mk(['C'] * 6, [(0, 1, 2), (1, 2, 1), (2, 3, 1), (3, 4, 1), (4, 5, 1), (5, 0, 1)]),
    'methylenecyclopentane': mk(['C'] * 6, [(0, 1, 1), (1, 2, 1), (2, 3, 1), (3, 4, 1), (4, 0, 1), (0, 5, 2)]),
    'cyclopropylmethanol': mk(['C', 'C', 'C', 'C', 'O'], [(0, 1, 1), (1, 2, 1), (2, 0, 1), (0, 3, 1), (3, 4, 1)]),
    'dimethylcyclobutane': mk(['C'] * 6, [(0, 1, 1), (1, 2, 1), (2, 3, 1), (3, 0, 1), (0, 4, 1), (1, 5, 1)]),
    'bicyclobutane': mk(['C'] * 4, [(0, 1, 1), (1, 2, 1), (2, 3, 1), (3, 0, 1), (0, 2, 1)]),
    'spiro': mk(['C'] * 5, [(0, 1, 1), (1, 2, 1), (2, 0, 1), (0, 3, 1), (3, 4, 1), (4, 0, 1)]),
    'chloroform-like': mk(['C', 'Cl', 'Br', 'F'], [(0, 1, 1), (0, 2, 1), (0, 3, 1)]),
    'tmao': mk([('N', 1), 'C', 'C', 'C', ('O', -1)], [(0, 1, 1), (0, 2, 1), (0, 3, 1), (0, 4, 1)]),
    'benzene': ring6('cccccc'),
    'toluene': ring6('cccccc', [(0, 'C', 1)]),
    'pyridine': ring6('ncccccc'[:6]),
    'aniline': ring6('cccccc', [(0, 'N', 1)]),
    'chlorophenol': ring6('cccccc', [(0, 'Cl', 1), (3, 'O', 1)]),
    'picoline': ring6('nccccc', [(2, 'C', 1)]),
    'styrene': mk(list('cccccc') + ['C', 'C'], [(i, (i + 1) % 6, 1.5) for i in range(6)] + [(0, 6, 1), (6, 7, 2)]),
    'biphenyl': mk(list('cccccc') + list('cccccc'),
                   [(i, (i + 1) % 6, 1.5) for i in range(6)] + [(6 + i, 6 + (i + 1) % 6, 1.5) for i in range(6)] + [(0, 6, 1)]),
    'thioanisole': mk(['C', 'S'] + list('cccccc'), [(0, 1, 1), (1, 2, 1)] + [(2 + i, 2 + (i + 1) % 6, 1.5) for i in range(6)]),
    'methylthiophenol': mk(['C', 'S'] + list('cccccc') + ['O'],
                           [(0, 1, 1), (1, 2, 1)] + [(2 + i, 2 + (i + 1) % 6, 1.5) for i in range(6)] + [(5, 8, 1)]),
    'anisole-N': mk(['C', 'N', 'C'] + list('cccccc'), [(0, 1, 1), (1, 2, 1), (1, 3, 1)] + [(3 + i, 3 + (i + 1) % 6, 1.5) for i in range(6)]),
    # five-membered hetero-aromatics: heteroatom at position 0, bonds 0-1 1-2 2-3 3-4 4-0
    'thiophene': ring5('scccc', (1, 2, 1, 2, 1)),
    'methylthiophene': ring5('scccc', (1, 2, 1, 2, 1), [(1, 'C', 1)]),
    'furan': ring5('occcc', (1, 2, 1, 2, 1)),
    'pyrrole': ring5('ncccc', (1, 2, 1, 2, 1), arom_h=(0,)),
    'methylpyrrole': ring5('ncccc', (1, 2, 1, 2, 1), [(0, 'C', 1)]),
    'imidazole': ring5('ncncc', (1, 2, 1, 2, 1), arom_h=(0,)),
    # ring written with aromatic symbols that carries exocyclic double bonds (returned kekulised)
    'quinone': dict(mk(list('cccccc') + ['O', 'O'], [(i, (i + 1) % 6, 1.5) for i in range(6)] + [(0, 6, 2), (3, 7, 2)]),
                    kekule=[[0, 1, 1], [1, 2, 2], [2, 3, 1], [3, 4, 1], [4, 5, 2], [5, 0, 1]]),
    'pyranone': dict(mk(list('occccc') + ['O'], [(i, (i + 1) % 6, 1.5) for i in range(6)] + [(3, 6, 2)]),
                     kekule=[[0, 1, 1], [1, 2, 2], [2, 3, 1], [3, 4, 1], [4, 5, 2], [5, 0, 1]]),
    'naphthalene': mk(list('cccccccccc'),
                      [(0, 1, 1.5), (1, 2, 1.5), (2, 3, 1.5), (3, 4, 1.5), (4, 5, 1.5), (5, 0, 1.5),
                       (4, 6, 1.5), (6, 7, 1.5), (7, 8, 1.5), (8, 9, 1.5), (9, 5, 1.5)]),
}
# larger molecules for the seed slice
SLICE = {
    'peo-trimer': mk(['O', 'C', 'C', 'O', 'C', 'C', 'O', 'C', 'C', 'O'], [(i, i + 1, 1) for i in range(9)]),
    'pmma-unit': mk(['C', 'C', 'C', 'C', 'O', 'O', 'C'], [(0, 1, 1), (1, 2, 1), (1, 3, 1), (3, 4, 2), (3, 5, 1), (5, 6, 1)]),
    'glycine-amide': mk(['N', 'C', 'C', 'O', 'N', 'C'], [(0, 1, 1), (1, 2, 1), (2, 3, 2), (2, 4, 1), (4, 5, 1)]),
    'decalin': mk(['C'] * 10, [(0, 1, 1), (1, 2, 1), (2, 3, 1), (3, 4, 1), (4, 5, 1), (5, 0, 1), (4, 6, 1), (6, 7, 1), (7, 8, 1), (8, 9, 1), (9, 5, 1)]),
    'chloroacrylonitrile': mk(['Cl', 'C', 'C', 'C', 'N'], [(0, 1, 1), (1, 2, 2), (2, 3, 1), (3, 4, 3)]),
    'benzoate': mk(list('cccccc') + ['C', 'O', ('O', -1)], [(i, (i + 1) % 6, 1.5) for i in range(6)] + [(0, 6, 1), (6, 7, 2), (6, 8, 1)]),
    'anilinium': mk(list('cccccc') + [('N', 1)], [(i, (i + 1) % 6, 1.5) for i in range(6)] + [(0, 6, 1)]),
    'cyclohexadiene': mk(['C'] * 6, [(0, 1, 2), (1, 2, 1), (2, 3, 2), (3, 4, 1), (4, 5, 1), (5, 0, 1)]),
}


# ----------------------------------------------------------------- partitions
def partitions(mol, max_frag=None, max_cut_pair=4):
    """all partitions of the atoms into connected fragments (each given as sorted tuple of sorted tuples)"""
    n = len(mol['atoms'])
    bonds = mol['bonds']
    seen = set()
    out = []
    for mask in range(1 << len(bonds)):
        g = nx.Graph()
        g.add_nodes_from(range(n))
        g.add_edges_from((a, b) for i, (a, b, o) in enumerate(bonds) if mask >> i & 1)
        comps = tuple(sorted(tuple(sorted(c)) for c in nx.connected_components(g)))
        if comps in seen:
            continue
        seen.add(comps)
        if max_frag and len(comps) > max_frag:
            continue
        owner = {a: i for i, c in enumerate(comps) for a in c}
        cnt = {}
        for a, b, o in bonds:
            if owner[a] != owner[b]:
                k = (min(owner[a], owner[b]), max(owner[a], owner[b]))
                cnt[k] = cnt.get(k, 0) + 1
        if cnt and max(cnt.values()) > max_cut_pair:
            continue
        out.append(comps)
    return out


# ----------------------------------------------------------------- rendering
SYM = {1: '', 2: '=', 3: '#', 1.5: '', 0: '.'}
LABELS = 'abcdefghijklmnopqrstuvwxyz'


def atom_text(mol, n, bracket_h=None):
    el, ch, ar = mol['atoms'][n]
    s = el.lower() if ar else el
    if n in mol.get('arom_h', ()) and bracket_h is None:
        bracket_h = 1           # [nH]: the hydrogen of a pyrrole-type nitrogen has to be written
    if ch or bracket_h is not None:
        h = ''
        if bracket_h:
            h = 'H' if bracket_h == 1 else 'H%d' % bracket_h
        c = '' if not ch else ('+' if ch > 0 else '-') * abs(ch) if abs(ch) == 1 else ('%+d' % ch)
        return '[' + s + h + c + ']'
    return s


def render_fragment(mol, nodes, descr, start, branch='asc', ring_scheme='1', descr_pos='after', lead=False,
                    brackets=False, hcounts=None, extra=None):
    """SMILES text (with descriptors) of the connected sub-molecule `nodes`.
    descr: atom -> list of (text, order); extra: atom -> annotation string placed inside a bracket atom"""
    g = to_graph(mol).subgraph(nodes)
    visited = []
    tree = {}

    def dfs(u, parent):
        visited.append(u)
        tree[u] = []
        nb = sorted(g[u], reverse=(branch == 'desc'))
        for v in nb:
            if v == parent or v in tree:
                continue
            tree[u].append(v)
            dfs(v, u)
    dfs(start, None)
    tree_edges = {frozenset((u, v)) for u in tree for v in tree[u]}
    pos = {n: i for i, n in enumerate(visited)}
    ring_at = {n: [] for n in nodes}
    base = {'1': 1, '5': 5, '%': 10}[ring_scheme]
    digit = base
    ring_edges = sorted((e for e in g.edges if frozenset(e) not in tree_edges), key=lambda e: sorted((pos[e[0]], pos[e[1]])))
    for a, b in ring_edges:
        if pos[a] > pos[b]:
            a, b = b, a
        o = g.edges[a, b]['order']
        ring_at[a].append((digit, o, True))
        ring_at[b].append((digit, o, False))
        digit += 1

    def dtext(n, skip_first=False):
        items = descr.get(n, [])
        if skip_first:
            items = items[1:]
        return ''.join((':' if o == 1.5 else SYM[o]) + '[' + t + ']' for t, o in items)

    def rtext(n):
        return ''.join((SYM[o] if opening else '') + (str(dg) if dg < 10 else '%%%02d' % dg)
                       for dg, o, opening in ring_at[n])

    def atom(n):
        bh = None
        if brackets:
            bh = (hcounts or {}).get(n, 0)
        s = atom_text(mol, n, bracket_h=bh)
        if extra and n in extra:
            if not s.startswith('['):
                s = '[' + s + ']'
            s = s[:-1] + ';' + extra[n] + ']'
        return s

    def emit(u, is_start=False):
        s = atom(u)
        skip = is_start and lead and bool(descr.get(u))
        if descr_pos == 'after':
            s += rtext(u) + dtext(u, skip)
        else:
            s += dtext(u, skip) + rtext(u)
        kids = tree[u]
        for k in kids[:-1]:
            s += '(' + SYM[g.edges[u, k]['order']] + emit(k) + ')'
        if kids:
            k = kids[-1]
            s += SYM[g.edges[u, k]['order']] + emit(k)
        return s

    body = emit(start, True)
    if lead and descr.get(start):
        t, o = descr[start][0]
        body = '[' + t + ']' + (':' if o == 1.5 else SYM[o]) + body
    return body


def cut_descriptors(mol, comps, kinds, colon=False):
    """descriptor lists per atom for the cut bonds; kinds: per cut '$' or '>' (cut index order = bond order)
    returns descr, base-graph edge multiplicities {(fi, fj): n}"""
    owner = {a: i for i, c in enumerate(comps) for a in c}
    descr = {}
    cnt = {}
    k = 0
    for a, b, o in mol['bonds']:
        if owner[a] == owner[b]:
            continue
        lab = LABELS[k]
        kind = kinds[k % len(kinds)]
        k += 1
        oo = (1.5 if colon else 1) if o == 1.5 else o     # colon: the aromatic cut bond is annotated as ':' on its descriptors
        if kind == '$':
            ta, tb = '$' + lab, '$' + lab
        elif kind == '>':
            ta, tb = '>' + lab, '<' + lab
        else:
            ta, tb = '<' + lab, '>' + lab
        descr.setdefault(a, []).append((ta, oo))
        descr.setdefault(b, []).append((tb, oo))
        key = (min(owner[a], owner[b]), max(owner[a], owner[b]))
        cnt[key] = cnt.get(key, 0) + 1
    return descr, cnt


def n_cuts(mol, comps):
    owner = {a: i for i, c in enumerate(comps) for a in c}
    return sum(1 for a, b, o in mol['bonds'] if owner[a] != owner[b])


def base_graph(nfrag, cnt, order):
    """base graph with nodes added in `order` (a permutation of fragment indices); node key = position in
    the base graph, fragname F<fragment index>"""
    g = nx.Graph()
    posn = {f: i for i, f in enumerate(order)}
    for f in order:
        g.add_node(posn[f], fragname='F%d' % f)
    for (a, b), c in sorted(cnt.items()):
        g.add_edge(posn[a], posn[b], order=c)
    return g


def base_string(g):
    """write the base graph as a CGsmiles graph string (independent little writer: DFS from node 0 in key
    order, ring bonds for the remaining edges, order symbol before the opening marker / between nodes /
    before a branch)"""
    sym = {0: '.', 1: '', 2: '=', 3: '#', 4: '$'}
    start = min(g.nodes)
    seen = []
    tree = {}

    def dfs(u, p):
        seen.append(u)
        tree[u] = []
        for v in sorted(g[u]):
            if v == p or v in tree:
                continue
            tree[u].append(v)
            dfs(v, u)
    dfs(start, None)
    if len(seen) != len(g):
        return None, None
    te = {frozenset((u, v)) for u in tree for v in tree[u]}
    pos = {n: i for i, n in enumerate(seen)}
    ring_at = {n: [] for n in g}
    d = 1
    for a, b in sorted((e for e in g.edges if frozenset(e) not in te), key=lambda e: sorted((pos[e[0]], pos[e[1]]))):
        if pos[a] > pos[b]:
            a, b = b, a
        ring_at[a].append(sym[g.edges[a, b]['order']] + (str(d) if d < 10 else '%%%d' % d))
        ring_at[b].append(str(d) if d < 10 else '%%%d' % d)
        d += 1

    def emit(u):
        s = '[#%s]' % g.nodes[u]['fragname'] + ''.join(sorted(ring_at[u], key=lambda x: '%' in x))
        kids = tree[u]
        for k in kids[:-1]:
            s += sym[g.edges[u, k]['order']] + '(' + emit(k) + ')'
        if kids:
            s += sym[g.edges[u, kids[-1]]['order']] + emit(kids[-1])
        return s
    return '{' + emit(start) + '}', seen


def model_hcounts(mol):
    g = result_graph(mol)
    out = {}
    for n in g:
        el, ch, ar = mol['atoms'][n]
        out[n] = ref_hcount(el, ch, sum(d['order'] for _, _, d in g.edges(n, data=True)))
    return out


def uncut_smiles(mol):
    return render_fragment(mol, list(range(len(mol['atoms']))), {}, 0)


# ----------------------------------------------------------------- comparison with a resolved molecule
def heavy_subgraph(aa):
    return aa.subgraph([n for n, d in aa.nodes(data=True) if d.get('element') != 'H'])


def compare_with_model(mol, aa, strict_orders=True):
    """None if the all-atom result is the model molecule (elements, charges, orders, hydrogens), else a class string"""
    g = result_graph(mol)
    H = heavy_subgraph(aa)
    if len(H) != len(g):
        return 'heavy-atom-count'
    if sorted(d['element'] for _, d in H.nodes(data=True)) != sorted(d['element'] for _, d in g.nodes(data=True)):
        return 'elements'

    def nm(a, b):
        return a['element'] == b['element'] and a.get('charge', 0) == b.get('charge', 0)

    def em(a, b):
        return a['order'] == b['order']
    if not nx.is_isomorphic(g, H, node_match=lambda a, b: a['element'] == b['element']):
        return 'connectivity'
    if not nx.is_isomorphic(g, H, node_match=nm):
        return 'charges'
    if strict_orders:
        GM = nx.isomorphism.GraphMatcher(g, H, node_match=nm, edge_match=em)
    else:
        GM = nx.isomorphism.GraphMatcher(g, H, node_match=nm)
    hc = model_hcounts(mol)
    found = False
    for m in GM.isomorphisms_iter():
        found = True
        ok = True
        for n, h in m.items():
            nh = sum(1 for x in aa[h] if aa.nodes[x].get('element') == 'H')
            if hc[n] is not None and nh != hc[n]:
                ok = False
                break
        if ok:
            return None
    return 'hydrogens' if found else 'bond-orders'


def same_molecule(a, b):
    return nx.is_isomorphic(a, b,
                            node_match=lambda x, y: x.get('element') == y.get('element') and x.get('charge', 0) == y.get('charge', 0),
                            edge_match=lambda x, y: x.get('order') == y.get('order'))


def has_conjugated_ring(mol):
    """some ring contains a multiple or aromatic bond (aromaticity perception may rewrite orders)"""
    g = to_graph(mol)
    for cyc in nx.cycle_basis(g):
        es = list(zip(cyc, cyc[1:] + cyc[:1]))
        if any(g.edges[e]['order'] != 1 for e in es):
            return True
    return False
