"""Base graphs (strings of the graph grammar) x fragment libraries (templates) for the resolver properties."""
from ..core import Explorer
from . import grammar as G

# atomistic templates (ambiguous on purpose: unlabelled $, homopolymers, several descriptors per atom, surplus)
AA = {
    'pe': '[$]CC[$]',
    'branch': '[$]C([$])C',
    'dir': '[>]CC[<]',
    'ring': '[$]C1CC1[$]',
    'plus': '[$]C[NH3+]',
    'minus': '[$]CC[O-]',
    'annot': '[$][C;0.5]([H;0.1])O[$]',
    'lab': '[$a]CC[$b]',
    'dbl': '[$]=CC=[$]',
    'surplus': '[$]CC[$][$]',
    'ter': '[$]O',
    'hfrag': '[$][H]',
    'two': '[$][>]CO[<]',
    'sq': '[!]CC[!]',
    'sq2': '[$]CC[!]',
    'arom': '[$]cc[$]',
    'cl': '[$]C(Cl)=[$]',
    'chir': '[>]C[C;x=R](F)[<]',
    'salt': '[$]C[O-].[Na+]',
    'dird': '[<]CC=[>]',
    'h0': '[$]C([H;0])O',
    'one': '[$][O;0.5;k=cap]',
    'sqlab': '[!a]CO[!b]',
    'salt2': '[$]CC(=O)[O-].[NH4+]',  # polyatomic counter ion attached only by the zero-order bond
    'thio': '[$]c1sc([$])cc1',        # five-membered hetero-aromatic monomer (the sulfur takes no hydrogen)
    'pyrr': '[$]c1ccc[nH]1',
}
CG = {
    'xy': '[$][#X][#Y][$]',
    'dir': '[>][#X][<]',
    'ring': '[$][#X]1[#Y][#Z]1[$]',
    'w': '[$][#X;0.5][#Y][$]',
    'sq': '[!][#X][#Y][!]',
    'lab': '[$a][#X][$b]',
    'dbl': '[$][#X]=[#Y][$]',
    'surplus': '[$][#X][$][$]',
    'mult': '[$][#X]|2[#Y][$]',
    'bmult': '[$][#X]([#Y])|2[$]',
    'bmult-end': '[>][#X][<]([#Y])|2',
    'free': '[>][#X;k=v][#X][<]',
    'dird': '[<][#X][#Y]=[>]',
}


def base_strings(B):
    ex = Explorer(dedup=False)
    out = []
    for st in ex.run(G.INIT, lambda s: G.succ(s, B), G.complete):
        toks = st[0]
        if any(t[0] == 'm' for t in toks):
            if not G.mult_units_ok(G.parse(toks)):
                continue
            try:
                G.denote(G.expand_mult(toks))
            except G.NotSimple:
                continue
        out.append(toks)
    return out, ex


def names_used(toks):
    seen = []
    for t in toks:
        if t[0] == 'n' and t[1] not in seen:
            seen.append(t[1])
    return seen


def cgsmiles(base, frags):
    return base + '.{' + ','.join('#%s=%s' % (k, v) for k, v in frags.items()) + '}'
