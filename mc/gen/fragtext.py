"""Fragment texts (SMILES / coarse fragments with bonding descriptors and
annotations) as a token-level transition system, with the reference result of
separating descriptors from text (what C13 states).

Tokens
  ('a', text, clean, annot)      atom as written / as it must appear in the clean text / annotation key
  ('b', sym)                     bond symbol between atoms
  ('(',) (')',)
  ('r', sym, id, style)          ring closure, optional ring bond symbol in front
  ('d', sym, desc)               bonding descriptor after an atom, optional order symbol in front:  =[$a]
  ('ld', desc, sym)              leading descriptor, optional order symbol behind:                  [$a]=
  ('m', k)                       node multiplier (coarse fragments only)
"""

ORDER = {None: 1, '-': 1, '=': 2, '#': 3, '.': 0, '$': 4, ':': 1.5}


class FBound:
    def __init__(self, atoms, bonds=('=',), descs=(('$', ''),), dsyms=(None, '='), max_atoms=3, max_descs=2,
                 max_descs_per_atom=2, max_depth=1, max_rings=0, ring_styles=('d',), ring_syms=(None,),
                 max_lead=1, max_annot=1, max_bonds=None, mults=(), desc_after_close=True, max_tokens=None,
                 bond_after_open=True):
        self.atoms = [tuple(a) for a in atoms]      # (text, clean, annot)
        self.bonds = tuple(bonds)
        self.descs = [tuple(d) for d in descs]
        self.dsyms = tuple(dsyms)
        self.max_atoms = max_atoms
        self.max_descs = max_descs
        self.max_descs_per_atom = max_descs_per_atom
        self.max_depth = max_depth
        self.max_rings = max_rings
        self.ring_styles = tuple(ring_styles)
        self.ring_syms = tuple(ring_syms)
        self.max_lead = max_lead
        self.max_annot = max_annot
        self.max_bonds = max_bonds
        self.mults = tuple(mults)
        self.desc_after_close = desc_after_close
        self.max_tokens = max_tokens
        self.bond_after_open = bond_after_open

    def to_json(self):
        return dict(self.__dict__)

    @classmethod
    def from_json(cls, d):
        b = cls(atoms=d['atoms'])
        for k, v in d.items():
            if k in ('atoms', 'descs'):
                v = [tuple(x) for x in v]
            elif isinstance(v, list):
                v = tuple(v)
            setattr(b, k, v)
        return b


# state: (toks, na, depth, last, opens, nrings, ndesc, ndesc_here, nannot, nbonds, cur, stack)
INIT = ((), 0, 0, 'S', (), 0, 0, 0, 0, 0, -1, ())


def succ(state, B):
    toks, na, depth, last, opens, nr, nd, ndh, nan, nb, cur, stack = state
    out = []
    if B.max_tokens is not None and len(toks) >= B.max_tokens:
        return out

    def atoms():
        if na >= B.max_atoms:
            return
        for a in B.atoms:
            extra = 1 if a[2] else 0
            if nan + extra > B.max_annot:
                continue
            out.append((toks + (('a',) + a,), na + 1, depth, 'A', opens, nr, nd, 0, nan + extra, nb, na, stack))

    if last in ('S', 'L'):
        nlead = sum(1 for t in toks if t[0] == 'ld')
        if nlead < B.max_lead and nd < B.max_descs:
            for k, lab in B.descs:
                for sy in B.dsyms:
                    out.append((toks + (('ld', k + lab, sy),), na, depth, 'L', opens, nr, nd + 1, ndh + 1, nan, nb, cur, stack))
        atoms()
        return out
    if last in ('B', 'O'):
        if last == 'O' and B.bond_after_open and B.bonds and na < B.max_atoms and (B.max_bonds is None or nb < B.max_bonds):
            for s in B.bonds:
                out.append((toks + (('b', s),), na, depth, 'B', opens, nr, nd, ndh, nan, nb + 1, cur, stack))
        atoms()
        return out
    # last in A (atom), R (ring closure), D (descriptor), C (close), M (multiplier)
    atoms()
    # descriptor on the current atom
    if nd < B.max_descs and ndh < B.max_descs_per_atom and (last != 'C' or B.desc_after_close) and last != 'M2':
        for k, lab in B.descs:
            for sy in B.dsyms:
                out.append((toks + (('d', sy, k + lab),), na, depth, 'D', opens, nr, nd + 1, ndh + 1, nan, nb, cur, stack))
    # multiplier directly after a coarse node
    if B.mults and last in ('A', 'C') and sum(1 for t in toks if t[0] == 'm') < 2 and \
            (last == 'A' or _single_branch(toks)):
        for k in B.mults:
            out.append((toks + (('m', k),), na, depth, 'M', opens, nr, nd, ndh, nan, nb, cur, stack))
    # ring closures belong to the atom just written (before or after its descriptors)
    if last in ('A', 'R', 'D') and not _closed_since_atom(toks):
        prev_pct = last == 'R' and toks[-1][3] == 'p'
        for rid, opener in opens:
            if opener == cur:
                continue
            for st in B.ring_styles:
                if st == 'pp':
                    continue
                if st == 'd' and (rid >= 10 or prev_pct):
                    continue
                if st == 'p' and False:
                    continue
                for sy in B.ring_syms:
                    out.append((toks + (('r', sy, rid, st),), na, depth, 'R', tuple(x for x in opens if x[0] != rid),
                                nr, nd, ndh, nan, nb, cur, stack))
        if nr < B.max_rings and na < B.max_atoms:
            used = [o[0] for o in opens]
            free = [d for d in range(1, 10) if d not in used][0]
            for st in B.ring_styles:
                if st == 'd' and prev_pct:
                    continue
                rid = free if st in ('d', 'p') else 10 + free
                for sy in B.ring_syms:
                    out.append((toks + (('r', sy, rid, 'p' if st != 'd' else 'd'),), na, depth, 'R',
                                opens + ((rid, cur),), nr + 1, nd, ndh, nan, nb, cur, stack))
    # bond to the next atom
    if B.bonds and na < B.max_atoms and (B.max_bonds is None or nb < B.max_bonds):
        for s in B.bonds:
            out.append((toks + (('b', s),), na, depth, 'B', opens, nr, nd, ndh, nan, nb + 1, cur, stack))
    if depth < B.max_depth and na < B.max_atoms and last != 'M':
        out.append((toks + (('(',),), na, depth + 1, 'O', opens, nr, nd, ndh, nan, nb, cur, stack + (cur,)))
    if depth > 0:
        # descriptors written after ')' belong to the branch anchor; their per-atom count continues
        anchor = stack[-1]
        ndh_anchor = sum(1 for t, o in zip(toks, owners(toks)) if t[0] == 'd' and o == anchor)
        out.append((toks + ((')',),), na, depth - 1, 'C', opens, nr, nd, ndh_anchor, nan, nb, anchor, stack[:-1]))
    return out


def _single_branch(toks):
    """the ')' at the end closes the first and only branch of its anchor (multiplied anchors with
    several branches are ambiguous and outside the alphabet); no branch multiplier nested inside either"""
    depth = 0
    for i in range(len(toks) - 1, -1, -1):
        if toks[i][0] == ')':
            depth += 1
        elif toks[i][0] == '(':
            depth -= 1
            if depth == 0:
                if any(t[0] == 'm' and toks[j - 1][0] == ')' for j, t in enumerate(toks[i:], i)):
                    return False
                # walk back to the anchor atom; an earlier ')' means an earlier branch of the same anchor
                for j in range(i - 1, -1, -1):
                    if toks[j][0] == 'a':
                        return True
                    if toks[j][0] in (')', 'm'):
                        return False
                return False
    return False


def _closed_since_atom(toks):
    for t in reversed(toks):
        if t[0] == 'a':
            return False
        if t[0] == ')':
            return True
    return False


def owners(toks):
    """owning atom index per token position (reference semantics of 'the atom it was written after').
    X|k and X(...)|k: the unit (node, or anchor plus everything written since) is repeated k times with
    consecutive numbering, what follows belongs to the last copy (its anchor)."""
    cur = -1
    na = 0
    stack = []
    out = []
    for t in toks:
        if t[0] == 'a':
            cur = na
            na += 1
        elif t[0] == '(':
            stack.append(cur)
        elif t[0] == ')':
            cur = stack.pop()
        elif t[0] == 'm':
            unit = na - cur
            na += (t[1] - 1) * unit
            cur += (t[1] - 1) * unit
        out.append(0 if t[0] == 'ld' else cur)
    return out


def atom_index(toks):
    """index of each written atom token in the expanded numbering"""
    cur = -1
    na = 0
    stack = []
    out = {}
    for i, t in enumerate(toks):
        if t[0] == 'a':
            cur = na
            out[i] = na
            na += 1
        elif t[0] == '(':
            stack.append(cur)
        elif t[0] == ')':
            cur = stack.pop()
        elif t[0] == 'm':
            unit = na - cur
            na += (t[1] - 1) * unit
            cur += (t[1] - 1) * unit
    return out


def complete(state):
    return state[2] == 0 and not state[4] and state[3] in ('A', 'R', 'D', 'C', 'M') and state[1] >= 1


def ser(toks):
    out = []
    for t in toks:
        k = t[0]
        if k == 'a':
            out.append(t[1])
        elif k == 'b':
            out.append(t[1])
        elif k == 'r':
            out.append((t[1] or '') + (str(t[2]) if t[3] == 'd' else '%%%02d' % t[2]))
        elif k == 'd':
            out.append((t[1] or '') + '[' + t[2] + ']')
        elif k == 'ld':
            out.append('[' + t[1] + ']' + (t[2] or ''))
        elif k == 'm':
            out.append('|%d' % t[1])
        else:
            out.append(k)
    return ''.join(out)


def reference(toks, annots):
    """(clean text, {atom: [descriptor+order]}, {atom: attrs})"""
    clean = []
    descs = {}
    attrs = {}
    own = owners(toks)
    aidx = atom_index(toks)
    for i, (t, o) in enumerate(zip(toks, own)):
        k = t[0]
        if k == 'a':
            clean.append(t[2])
            if t[3]:
                attrs[aidx[i]] = annots[t[3]]
        elif k == 'b':
            clean.append(t[1])
        elif k == 'r':
            clean.append((t[1] or '') + (str(t[2]) if t[3] == 'd' else '%%%02d' % t[2]))
        elif k == 'd':
            descs.setdefault(o, []).append(t[2] + str(ORDER[t[1]]))
        elif k == 'ld':
            descs.setdefault(0, []).append(t[1] + str(ORDER[t[2]]))
        elif k == 'm':
            clean.append('|%d' % t[1])
        else:
            clean.append(k)
    return ''.join(clean), descs, attrs
