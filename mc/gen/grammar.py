"""The documented CGsmiles graph grammar as a transition system over token
sequences, its serialiser and its denotation (reference models R-graph, R-mult).

    graph    := '{' chain '}'
    chain    := unit (bond? unit)*
    unit     := node ringbond* (bond? '(' chain ')')* mult?
    node     := '[#' name (';' annotation)* ']' mult?
    ringbond := bond? (DIGIT | '%' DIGIT DIGIT)
    bond     := . - = # $

A state of the transition system is a token tuple plus a summary; a transition
appends one token, hence every state has exactly one derivation (the system is
a tree) and no `seen` set is needed; core.Explorer(dedup=True) is used on the
small bounds to confirm that.  The summary carries just enough of the denoted
graph (current node, branch stack, edge set, ring openers) to prune sentences
that would denote a self loop or a double edge (those are rejected by the
reader on purpose and are the subject of C20, not C04).

Tokens:  ('n', name, annot) | ('b', sym) | ('r', id, style) | ('(',) | (')',) | ('m', k)
"""

SYM2ORD = {'.': 0, '-': 1, '=': 2, '#': 3, '$': 4}
NAMES = 'ABCDEFGHIJKLMNOP'


class Bound:
    def __init__(self, max_nodes=4, max_depth=2, max_open=2, max_rings=2, bonds=('=',),
                 bond_positions=('chain', 'ring', 'pre', 'post'), ring_styles=('d', 'p', 'pp'),
                 max_bonds=None, names=None, annots=None, mults=(), max_mults=0,
                 mult_on=('node', 'branch'), max_tokens=None, branch_after_branch=True, names_free=False):
        self.max_nodes = max_nodes
        self.max_depth = max_depth
        self.max_open = max_open
        self.max_rings = max_rings
        self.bonds = tuple(bonds)
        self.bond_positions = tuple(bond_positions)
        self.ring_styles = tuple(ring_styles)
        self.max_bonds = max_bonds      # max number of explicit bond symbols (None = unbounded)
        self.names = names
        self.annots = annots            # list of annotation strings; at most one annotated node
        self.mults = tuple(mults)       # multiplier values
        self.max_mults = max_mults
        self.mult_on = tuple(mult_on)
        self.max_tokens = max_tokens
        self.branch_after_branch = branch_after_branch
        self.names_free = names_free

    def to_json(self):
        return dict(self.__dict__)

    @classmethod
    def from_json(cls, d):
        b = cls()
        for k, v in d.items():
            setattr(b, k, tuple(v) if isinstance(v, list) else v)
        return b


# state: (toks, nn, depth, last, opens, nr, nb, na, nm, prev, stack, edges)
INIT = ((), 0, 0, 'S', (), 0, 0, 0, 0, -1, (), frozenset())


def _node_tokens(nn, na, B):
    if B.names_free:
        names = B.names
    else:
        names = [(B.names[nn % len(B.names)] if B.names else NAMES[nn])]
    for name in names:
        yield ('n', name, ''), na
        if B.annots and na == 0:
            for a in B.annots:
                yield ('n', name, a), 1


def _branch_unit_ok(toks):
    """toks ends with ')': the closed branch is the first and only branch of its anchor and the unit
    (anchor + branch) has no ring bond to the outside -- the shapes the C05 alphabet admits for a branch multiplier"""
    depth = 0
    rings = {}
    for i in range(len(toks) - 1, -1, -1):
        k = toks[i][0]
        if k == ')':
            depth += 1
        elif k == '(':
            depth -= 1
            if depth == 0:
                if any(c % 2 for c in rings.values()):
                    return False        # a ring bond leaves the unit
                j = i - 1
                if j >= 0 and toks[j][0] == 'b':
                    j -= 1
                if j >= 0 and toks[j][0] == 'm':
                    j -= 1
                return j >= 0 and toks[j][0] == 'n'
        elif k == 'r':
            # ring bonds that open and close inside the branch are part of the unit that is written out n times
            rings[toks[i][1]] = rings.get(toks[i][1], 0) + 1
    return False


def succ(state, B):
    toks, nn, depth, last, opens, nr, nb, na, nm, prev, stack, edges = state
    out = []
    if B.max_tokens is not None and len(toks) >= B.max_tokens:
        return out
    can_bond = B.max_bonds is None or nb < B.max_bonds

    def add_node():
        for t, na2 in _node_tokens(nn, na, B):
            e2 = edges if prev < 0 else edges | {(prev, nn)}
            out.append((toks + (t,), nn + 1, depth, 'N', opens, nr, nb, na2, nm, nn, stack, e2))

    if last in ('S', 'O', 'BM'):
        if nn < B.max_nodes:
            add_node()
        return out
    # next node of the chain
    if nn < B.max_nodes:
        add_node()
    # multiplier
    if B.mults and nm < B.max_mults:
        ok = (last == 'N' and 'node' in B.mult_on and toks[-1][0] == 'n') or \
             (last == 'C' and 'branch' in B.mult_on and _branch_unit_ok(toks)) or \
             (last == 'BC' and 'branch' in B.mult_on and toks[-2] == (')',) and _branch_unit_ok(toks[:-1]))
        if ok:
            cls = 'MN' if last == 'N' else 'M'
            for k in B.mults:
                out.append((toks + (('m', k),), nn, depth, cls, opens, nr, nb, na, nm + 1, prev, stack, edges))
    # ring markers directly after a node (or after other ring markers / a ring bond symbol)
    if last in ('N', 'P', 'BN'):
        if last != 'BN':
            for rid, opener in opens:
                if opener == prev or (opener, prev) in edges or (prev, opener) in edges:
                    continue        # would denote a self loop / double edge
                styles = []
                if rid < 10:
                    if last != 'P' and 'd' in B.ring_styles:
                        styles.append('d')
                    if 'p' in B.ring_styles:
                        styles.append('p')
                else:
                    styles.append('p')
                rest = tuple(x for x in opens if x[0] != rid)
                for st in styles:
                    out.append((toks + (('r', rid, st),), nn, depth, 'P' if st == 'p' else 'N',
                                rest, nr, nb, na, nm, prev, stack, edges | {(opener, prev)}))
        if len(opens) < B.max_open and nr < B.max_rings and nn < B.max_nodes and \
                (last != 'BN' or 'ring' in B.bond_positions):
            used = [o[0] for o in opens]
            free = [d for d in range(1, 10) if d not in used and d + 10 not in used][0]
            opts = []
            if 'd' in B.ring_styles and last != 'P':
                opts.append((free, 'd'))
            if 'p' in B.ring_styles:
                opts.append((free, 'p'))
            if 'pp' in B.ring_styles:
                opts.append((10 + free, 'p'))
            for rid, st in opts:
                out.append((toks + (('r', rid, st),), nn, depth, 'P' if st == 'p' else 'N',
                            opens + ((rid, prev),), nr + 1, nb, na, nm, prev, stack, edges))
    # bond symbols
    if last in ('N', 'P', 'C', 'M', 'MN') and can_bond and B.bonds and nn < B.max_nodes:
        cls = {'N': 'BN', 'P': 'BN', 'C': 'BC', 'M': 'BM', 'MN': 'BC'}[last]
        if cls == 'BC' and 'post' not in B.bond_positions and 'pre' not in B.bond_positions:
            pass
        else:
            for s in B.bonds:
                out.append((toks + (('b', s),), nn, depth, cls, opens, nr, nb + 1, na, nm, prev, stack, edges))
    # open branch
    if depth < B.max_depth and nn < B.max_nodes and last not in ('M', 'BM'):
        ok = True
        if last in ('BN', 'BC') and 'pre' not in B.bond_positions:
            ok = False
        if last in ('C', 'BC') and not B.branch_after_branch:
            ok = False
        if ok:
            out.append((toks + (('(',),), nn, depth + 1, 'O', opens, nr, nb, na, nm, prev, stack + (prev,), edges))
    # close branch
    if depth > 0 and last in ('N', 'P', 'C', 'M', 'MN'):
        out.append((toks + ((')',),), nn, depth - 1, 'C', opens, nr, nb, na, nm, stack[-1], stack[:-1], edges))
    return out


def complete(state):
    return state[2] == 0 and not state[4] and state[3] in ('N', 'P', 'C', 'M', 'MN')


def ser(tokens, braces=True):
    out = []
    for t in tokens:
        k = t[0]
        if k == 'n':
            out.append('[#%s%s]' % (t[1], (';' + t[2]) if t[2] else ''))
        elif k == 'b':
            out.append(t[1])
        elif k == 'r':
            out.append(str(t[1]) if t[2] == 'd' else '%%%02d' % t[1])
        elif k == 'm':
            out.append('|%d' % t[1])
        else:
            out.append(k)
    s = ''.join(out)
    return '{' + s + '}' if braces else s


class NotSimple(Exception):
    """sentence is grammatical but denotes a self loop, a double edge or leaves a ring open"""


def denote(tokens):
    """R-graph: nodes (list of (name, annot)), edges dict {(a,b): order}, a<b.
    Multipliers must have been expanded before (expand_mult)."""
    nodes = []
    edges = {}
    stack = []
    prev = None
    pending = None
    open_r = {}

    def add(a, b, o):
        if a == b:
            raise NotSimple('self loop')
        key = (min(a, b), max(a, b))
        if key in edges:
            raise NotSimple('double edge')
        edges[key] = o

    for t in tokens:
        k = t[0]
        if k == 'n':
            idx = len(nodes)
            nodes.append((t[1], t[2]))
            if prev is not None:
                add(prev, idx, 1 if pending is None else SYM2ORD[pending])
            pending = None
            prev = idx
        elif k == 'b':
            pending = t[1]
        elif k == 'r':
            rid = t[1]
            if rid in open_r:
                m, o = open_r.pop(rid)
                add(m, prev, o)
            else:
                open_r[rid] = (prev, 1 if pending is None else SYM2ORD[pending])
            pending = None
        elif k == '(':
            stack.append(prev)
        elif k == ')':
            prev = stack.pop()
            pending = None
        else:
            raise ValueError('multiplier not expanded')
    if open_r:
        raise NotSimple('dangling')
    return nodes, edges


# ---------------------------------------------------------------- R-mult
def parse(tokens):
    """tokens -> AST: chain = [unit]; unit = dict(bond, node, rings, branches=[(bond, chain)],
    nmult, bmult, bsym)."""
    pos = [0]

    def chain():
        units = []
        pending = None
        while pos[0] < len(tokens):
            t = tokens[pos[0]]
            if t[0] == 'b':
                pending = t[1]
                pos[0] += 1
            elif t[0] == 'n':
                u = {'bond': pending, 'node': t, 'rings': [], 'branches': [], 'nmult': 1, 'bmult': 1,
                     'bsym': None, 'has_bmult': False}
                pending = None
                pos[0] += 1
                units.append(u)
            elif t[0] == 'm':
                u = units[-1]
                pos[0] += 1
                if u['branches']:
                    u['bmult'] = t[1]
                    u['has_bmult'] = True
                    u['bsym'] = pending
                    pending = None
                else:
                    u['nmult'] = t[1]
            elif t[0] == 'r':
                units[-1]['rings'].append((pending, t))
                pending = None
                pos[0] += 1
            elif t[0] == '(':
                pos[0] += 1
                sub = chain()
                assert tokens[pos[0]][0] == ')'
                pos[0] += 1
                units[-1]['branches'].append((pending, sub))
                pending = None
            elif t[0] == ')':
                return units
        return units
    return chain()


def unparse(chain):
    out = []
    for u in chain:
        if u['bond'] is not None:
            out.append(('b', u['bond']))
        out.append(u['node'])
        for b, r in u['rings']:
            if b is not None:
                out.append(('b', b))
            out.append(r)
        for b, sub in u['branches']:
            if b is not None:
                out.append(('b', b))
            out.append(('(',))
            out.extend(unparse(sub))
            out.append((')',))
    return tuple(out)


def expand_ast(chain):
    """R-mult as a rewrite on the AST.
    X|n            -> X X ... X        (first copy keeps the incoming bond; later copies order 1;
                                        what is written after the unit follows the last copy)
    X b(chain) c|n -> X b(chain) c X b(chain) c ...   (bond between copies: c, default 1)"""
    out = []
    for u in chain:
        branches = [(b, expand_ast(sub)) for b, sub in u['branches']]
        pre = []
        bond = u['bond']
        rings = u['rings']
        if u['nmult'] > 1 and (u['has_bmult'] or branches):
            # X|n followed by branches: n-1 plain copies, the last copy carries the branches
            for i in range(u['nmult'] - 1):
                pre.append({'bond': bond if i == 0 else None, 'node': u['node'], 'rings': rings if i == 0 else [],
                            'branches': [], 'nmult': 1, 'bmult': 1, 'bsym': None, 'has_bmult': False})
            bond = None
            rings = []
        out.extend(pre)
        if u['has_bmult']:
            for i in range(u['bmult']):
                out.append({'bond': bond if i == 0 else u['bsym'], 'node': u['node'], 'rings': [],
                            'branches': branches, 'nmult': 1, 'bmult': 1, 'bsym': None, 'has_bmult': False})
        elif u['nmult'] > 1 and not pre:
            n = u['nmult']
            for i in range(n):
                out.append({'bond': u['bond'] if i == 0 else None, 'node': u['node'],
                            'rings': u['rings'] if i == 0 else [],
                            'branches': [],
                            'nmult': 1, 'bmult': 1, 'bsym': None, 'has_bmult': False})
        else:
            v = dict(u)
            v['bond'] = bond
            v['rings'] = rings
            v['branches'] = branches
            v['nmult'] = 1
            out.append(v)
    return out


def expand_mult(tokens):
    return unparse(expand_ast(parse(tokens)))


def mult_units_ok(chain):
    """C05 alphabet restriction: a branch multiplier only on an anchor with exactly one
    branch, no ring marker on the anchor of a multiplied unit and no ring bond that leaves the unit
    (ring bonds that open and close inside the multiplied branch are part of the unit)."""
    def ring_ids(ch, acc):
        for u in ch:
            for _, r in u['rings']:
                acc[r[1]] = acc.get(r[1], 0) + 1
            for _, s in u['branches']:
                ring_ids(s, acc)
        return acc
    for u in chain:
        if u['has_bmult']:
            if len(u['branches']) != 1 or u['rings'] or any(c % 2 for c in ring_ids(u['branches'][0][1], {}).values()):
                return False
        if u['nmult'] > 1 and u['rings']:
            return False
        for _, sub in u['branches']:
            if not mult_units_ok(sub):
                return False
    return True
