"""Invariants on resolver / sampler outputs shared by C02, C03, C09, C11, C12 (reference side).
Each function returns None when the invariant holds, else (class, detail)."""
import itertools
import networkx as nx
from ..gen.molecules import VAL, ref_hcount

STRUCT_KEYS = {'bonding', 'fragid', 'mapping', 'hcount', 'fragname', 'atomname', 'ez_isomer', 'ez_isomer_atoms',
               'ez_isomer_class', 'position', 'contraction', 'aromatic', 'single_h_frag', 'stereo', 'rs_isomer',
               'element', 'charge', 'isotope', 'class'}


# ------------------------------------------------------------------ C09
def check_valence(aa):
    for n, d in aa.nodes(data=True):
        el = d.get('element')
        if el is None:
            return 'valence:no-element', {'node': n}
        if el == 'H':
            if aa.degree(n) == 0 and d.get('single_h_frag'):
                continue    # a single-hydrogen fragment whose descriptor found no partner: nothing to complete
            if aa.degree(n) != 1:
                return 'valence:H-degree', {'node': n, 'degree': aa.degree(n)}
            continue
        ch = d.get('charge', 0)
        key = (el, int(ch))
        if key not in VAL:
            continue
        heavy = sum(e.get('order', 1) for _, m, e in aa.edges(n, data=True) if aa.nodes[m].get('element') != 'H')
        if heavy > VAL[key][-1] + 1e-9:
            continue        # over-valent as written: outside the clause
        nh = sum(1 for m in aa[n] if aa.nodes[m].get('element') == 'H')
        want = ref_hcount(el, int(ch), heavy)
        if nh != want:
            return 'valence:hydrogens', {'node': n, 'element': el, 'charge': ch, 'heavy_bond_sum': heavy,
                                         'hydrogens': nh, 'expected': want}
        tot = sum(e.get('order', 1) for _, m, e in aa.edges(n, data=True))
        if abs(tot - (heavy + want)) > 1e-9:
            return 'valence:H-bond-order', {'node': n}
    return None


def check_h_attrs(aa):
    """every hydrogen that is not its own fragment carries its neighbour's fragid, fragname, weight"""
    for n, d in aa.nodes(data=True):
        if d.get('element') != 'H' or aa.degree(n) != 1:
            continue
        if d.get('mapping'):
            continue        # explicitly written hydrogen (own template atom)
        nb = next(iter(aa[n]))
        for attr in ('fragid', 'fragname', 'weight'):
            if d.get(attr) != aa.nodes[nb].get(attr):
                return 'H-attr:' + attr, {'node': n, 'value': d.get(attr), 'neighbour': aa.nodes[nb].get(attr)}
    return None


# ------------------------------------------------------------------ C12 (a)
def check_numbering(coarse, fine, all_atom, shared=None):
    keys = list(fine.nodes)
    n = len(keys)
    if sorted(keys) != list(range(n)):
        return 'numbering:keys', {'keys': sorted(keys)[:20]}
    fr = [fine.nodes[i].get('fragid') for i in range(n)]
    if any(not isinstance(f, list) or not f for f in fr):
        return 'numbering:fragid-missing', {}
    if fr != sorted(fr):
        return 'numbering:not-sorted-by-fragid', {'fragids': fr[:30]}
    if all(len(f) == 1 for f in fr):
        # contiguous blocks in base-graph order
        seq = [f[0] for f in fr]
        blocks = [k for k, _ in itertools.groupby(seq)]
        if len(blocks) != len(set(blocks)):
            return 'numbering:blocks', {'blocks': blocks}
        order = [k for k in coarse.nodes if k in set(blocks)]
        if blocks != sorted(blocks):
            return 'numbering:block-order', {'blocks': blocks}
    if all_atom:
        for k in coarse.nodes:
            g = coarse.nodes[k].get('graph')
            if g is None or len(g) == 0:
                continue
            names = []
            for i in g.nodes:
                nm = fine.nodes[i].get('atomname')
                el = fine.nodes[i].get('element')
                if not isinstance(nm, str) or not nm.startswith(el) or not nm[len(el):].isdigit():
                    return 'numbering:atomname-format', {'node': i, 'atomname': nm, 'element': el}
                names.append(nm)
            ordered = sorted(g.nodes)
            if all(len(fine.nodes[i].get('fragid', [])) == 1 for i in ordered):
                # running index: the i-th atom of the coarse node (in key order) is named element + i
                for pos, i in enumerate(ordered):
                    if fine.nodes[i].get('atomname') != fine.nodes[i].get('element') + str(pos):
                        return 'numbering:atomname-index-does-not-follow-atom-order', {
                            'coarse': k, 'names': [fine.nodes[j].get('atomname') for j in ordered]}
            if len(set(names)) != len(names):
                dup = {nm for nm in names if names.count(nm) > 1}
                via_shared = all(any(len(fine.nodes[i].get('fragid', [])) > 1 for i in g.nodes if fine.nodes[i].get('atomname') == nm)
                                 for nm in dup)
                return ('numbering:atomname-duplicate' + (':shared-atom' if via_shared else '')), {'coarse': k, 'names': names}
    return None


# ------------------------------------------------------------------ C02
def _orders_match(o_t, o_f, arom_t, arom_f):
    if o_t == o_f:
        return True
    if arom_t or arom_f:
        return o_t in (1, 1.5, 2) and o_f in (1, 1.5, 2)
    return False


def copies(coarse, fine, frag_dict):
    """{coarse key: {template node: fine node}} via the 'mapping' / 'fragid' attributes (index aligned)"""
    out = {k: {} for k in coarse.nodes}
    bad = None
    for n, d in fine.nodes(data=True):
        mp = d.get('mapping')
        if not mp:
            continue
        fr = d.get('fragid', [])
        if len(mp) != len(fr):
            bad = ('mapping:length', {'node': n, 'mapping': mp, 'fragid': fr})
            continue
        for k, (fname, t) in zip(fr, mp):
            if k not in out:
                bad = ('mapping:unknown-coarse-key', {'node': n, 'key': k})
                continue
            if t in out[k]:
                bad = ('mapping:template-node-twice', {'coarse': k, 'template_node': t})
            out[k][t] = n
    return out, bad


def check_mapping(coarse, fine, frag_dict, all_atom):
    # (i) fragid present, refers to coarse nodes
    owners = {k: set() for k in coarse.nodes}
    for n, d in fine.nodes(data=True):
        fr = d.get('fragid')
        if not isinstance(fr, list) or not fr:
            return 'map:fragid-missing', {'node': n}
        for k in fr:
            if k not in owners:
                return 'map:fragid-unknown', {'node': n, 'fragid': fr}
            owners[k].add(n)
    # (ii) coarse 'graph' node set
    for k in coarse.nodes:
        g = coarse.nodes[k].get('graph')
        gn = set(g.nodes) if g is not None else set()
        if gn != owners[k]:
            return 'map:graph-set', {'coarse': k, 'graph_nodes': sorted(gn), 'fragid_nodes': sorted(owners[k])}
        fname = coarse.nodes[k].get('fragname')
        if fname not in frag_dict and owners[k]:
            return 'map:virtual-node-has-atoms', {'coarse': k}
    # (iv) copies of the templates
    cp, bad = copies(coarse, fine, frag_dict)
    if bad:
        return bad
    for k in coarse.nodes:
        fname = coarse.nodes[k].get('fragname')
        if fname not in frag_dict:
            continue
        tmpl = frag_dict[fname]
        m = cp[k]
        if set(m) != set(tmpl.nodes):
            return 'copy:node-set', {'coarse': k, 'fragname': fname, 'template': sorted(tmpl.nodes), 'copy': sorted(m)}
        if len(set(m.values())) != len(m):
            return 'copy:not-injective', {'coarse': k}
        for t, n in m.items():
            td, fd = tmpl.nodes[t], fine.nodes[n]
            shared = len(fd.get('fragid', [])) > 1
            if all_atom:
                if td.get('element') != fd.get('element') and not shared:
                    return 'copy:element', {'coarse': k, 'template_node': t, 'node': n}
                if td.get('charge', 0) != fd.get('charge', 0) and not shared:
                    return 'copy:charge', {'coarse': k, 'template_node': t, 'node': n}
            else:
                if td.get('atomname') != fd.get('atomname') and not shared:
                    return 'copy:name', {'coarse': k, 'template_node': t, 'node': n,
                                         'template': td.get('atomname'), 'fine': fd.get('atomname')}
            if not shared:
                if fd.get('fragname') != fname:
                    return 'copy:fragname', {'coarse': k, 'node': n, 'fragname': fd.get('fragname'), 'expected': fname}
                for key, val in td.items():
                    if key in STRUCT_KEYS:
                        continue
                    if fd.get(key) != val:
                        return 'copy:annotation', {'coarse': k, 'node': n, 'key': key, 'template': val, 'fine': fd.get(key)}
            else:
                names = {coarse.nodes[kk].get('fragname') for kk in fd['fragid']}
                if fd.get('fragname') not in names:
                    return 'copy:fragname', {'coarse': k, 'node': n, 'fragname': fd.get('fragname')}
        for a, b, ed in tmpl.edges(data=True):
            if ed.get('order', 1) == 0 and not fine.has_edge(m[a], m[b]):
                # zero-order (ionic) template bonds: kept as order-0 edges
                return 'copy:edge-missing', {'coarse': k, 'edge': (a, b)}
            if not fine.has_edge(m[a], m[b]):
                return 'copy:edge-missing', {'coarse': k, 'edge': (a, b)}
            fo = fine.edges[m[a], m[b]].get('order', 1)
            arom_t = bool(tmpl.nodes[a].get('aromatic')) and bool(tmpl.nodes[b].get('aromatic'))
            arom_f = bool(fine.nodes[m[a]].get('aromatic')) and bool(fine.nodes[m[b]].get('aromatic'))
            if not _orders_match(ed.get('order', 1), fo, arom_t, arom_f):
                return 'copy:edge-order', {'coarse': k, 'edge': (a, b), 'template': ed.get('order', 1), 'fine': fo}
        inv = {n: t for t, n in m.items()}
        for n in inv:
            for nb in fine[n]:
                if nb in inv and not tmpl.has_edge(inv[n], inv[nb]):
                    if len(fine.nodes[n]['fragid']) > 1 or len(fine.nodes[nb]['fragid']) > 1:
                        continue
                    return 'copy:extra-edge', {'coarse': k, 'nodes': (n, nb)}
    # completed hydrogens belong to exactly the coarse node(s) of their anchor (checked by C09's H-attr oracle)
    return None


# ------------------------------------------------------------------ C03
def compatible(a, b, legacy):
    ka, kb = a[0], b[0]
    if legacy:
        if ka in '$!' and a == b:
            return True
        if {ka, kb} == {'<', '>'}:
            return a[1:] == b[1:]
        return False
    if ka == kb and ka in '$!':
        return True
    return {ka, kb} == {'<', '>'}


def check_bonds(coarse, fine, frag_dict, legacy, all_atom, dedicated=False):
    cp, bad = copies(coarse, fine, frag_dict)
    if bad:
        return bad
    inv = {}
    for k, m in cp.items():
        for t, n in m.items():
            inv.setdefault(n, []).append((k, t))
    used = {}          # (coarse key, template node) -> list of used descriptors
    per_edge = {}      # base edge -> number of bonds attributed
    flexible = []
    for u, v, d in fine.edges(data=True):
        fu, fv = fine.nodes[u].get('fragid', []), fine.nodes[v].get('fragid', [])
        inter = not (set(fu) & set(fv))
        if 'bonding' not in d:
            if inter and not (fine.nodes[u].get('element') == 'H' or fine.nodes[v].get('element') == 'H'):
                return 'bond:inter-fragment-edge-without-descriptors', {'edge': (u, v)}
            if inter:
                return 'bond:hydrogen-across-fragments', {'edge': (u, v)}
            continue
        bu, bv = d['bonding']
        if not compatible(bu, bv, legacy):
            return 'bond:incompatible-pair', {'edge': (u, v), 'bonding': (bu, bv)}
        # which descriptor sits on which atom (edge orientation is not preserved by the graph)
        ok_assign = None
        for (x, bx), (y, by) in (((u, bu), (v, bv)), ((u, bv), (v, bu))):
            cx = [(k, t) for k, t in inv.get(x, []) if bx in frag_dict[coarse.nodes[k]['fragname']].nodes[t].get('bonding', [])]
            cy = [(k, t) for k, t in inv.get(y, []) if by in frag_dict[coarse.nodes[k]['fragname']].nodes[t].get('bonding', [])]
            pairs = [(p, q) for p in cx for q in cy if p[0] != q[0] and coarse.has_edge(p[0], q[0])
                     and coarse.edges[p[0], q[0]].get('order', 1) >= 1]
            if pairs:
                ok_assign = (pairs, bx, by)
                break
        if ok_assign is None:
            if not any(coarse.has_edge(a, b) and coarse.edges[a, b].get('order', 1) >= 1 for a in fu for b in fv):
                return 'bond:not-across-a-base-edge', {'edge': (u, v), 'fragids': (fu, fv)}
            return 'bond:descriptor-not-on-template-atom', {'edge': (u, v), 'bonding': (bu, bv)}
        pairs, bx, by = ok_assign
        # order
        o = d.get('order')
        arom = bool(fine.nodes[u].get('aromatic')) and bool(fine.nodes[v].get('aromatic'))
        allowed = {int(bu[-1]), int(bv[-1])} if not legacy else {int(bu[-1])}
        if legacy and bu[-1] != bv[-1]:
            return 'bond:order-digits-differ', {'bonding': (bu, bv)}
        # both ends written as aromatic atoms but the ring shows no delocalisation-induced equivalence (thiophene,
        # furan, pyrrole): pysmiles reports such a ring kekulised, the cut bond then has its Kekule order (1 or 2)
        written_arom = any(bool(frag_dict[coarse.nodes[p[0]]['fragname']].nodes[p[1]].get('aromatic')) and
                           bool(frag_dict[coarse.nodes[q[0]]['fragname']].nodes[q[1]].get('aromatic')) for p, q in pairs)
        if not (o in allowed or (arom and o == 1.5) or (written_arom and not arom and o in (1, 2))):
            return 'bond:order', {'edge': (u, v), 'order': o, 'bonding': (bu, bv)}
        if len(pairs) == 1:
            (p, q) = pairs[0]
            used.setdefault(p, []).append(bx)
            used.setdefault(q, []).append(by)
            e = (min(p[0], q[0]), max(p[0], q[0]))
            per_edge[e] = per_edge.get(e, 0) + 1
        else:
            flexible.append(pairs)
    # squash merges use one base edge each
    merges = []
    for n, d in fine.nodes(data=True):
        fr = d.get('fragid', [])
        if len(fr) > 1 and d.get('mapping') and len(d['mapping']) > 1:
            merges.append(fr)
    # descriptor multiset per template atom instance
    for (k, t), ds in used.items():
        avail = list(frag_dict[coarse.nodes[k]['fragname']].nodes[t].get('bonding', []))
        for x in ds:
            if x not in avail:
                return 'bond:descriptor-used-twice', {'coarse': k, 'template_node': t, 'used': ds}
            avail.remove(x)
    # counts per base edge (bonds with a unique attribution) -- merges and flexible ones need an assignment
    for (a, b), c in per_edge.items():
        if c > coarse.edges[a, b].get('order', 1):
            return 'bond:more-than-order', {'base_edge': (a, b), 'bonds': c, 'order': coarse.edges[a, b].get('order', 1)}
    if merges or flexible:
        if not _assignable(coarse, per_edge, merges, flexible):
            return 'bond:more-than-order(assignment)', {'merges': merges, 'flexible': len(flexible)}
    for a, b, ed in coarse.edges(data=True):
        if ed.get('order', 1) == 0 and per_edge.get((min(a, b), max(a, b)), 0):
            return 'bond:across-zero-order-edge', {'base_edge': (a, b)}
    if dedicated and not merges and not flexible:
        for a, b, ed in coarse.edges(data=True):
            if per_edge.get((min(a, b), max(a, b)), 0) != ed.get('order', 1):
                return 'bond:fewer-than-order', {'base_edge': (a, b), 'bonds': per_edge.get((min(a, b), max(a, b)), 0),
                                                 'order': ed.get('order', 1)}
    return None


def _assignable(coarse, per_edge, merges, flexible, limit=20000):
    """is there an attribution of the remaining bonds / merges to base edges within the edge orders?"""
    cap = {}
    for a, b, ed in coarse.edges(data=True):
        cap[(min(a, b), max(a, b))] = ed.get('order', 1) - per_edge.get((min(a, b), max(a, b)), 0)
    items = []
    for prs in flexible:
        items.append(sorted({(min(p[0], q[0]), max(p[0], q[0])) for p, q in prs}))
    for fr in merges:
        # a merged atom with keys K used |K|-1 base edges forming a tree on K: enumerate spanning trees for small K
        ks = sorted(set(fr))
        es = [(a, b) for a, b in itertools.combinations(ks, 2) if (a, b) in cap]
        trees = []
        for comb in itertools.combinations(es, len(ks) - 1):
            g = nx.Graph()
            g.add_nodes_from(ks)
            g.add_edges_from(comb)
            if nx.is_connected(g):
                trees.append(comb)
        if not trees:
            return False
        items.append(('tree', trees))
    count = [0]

    def rec(i):
        count[0] += 1
        if count[0] > limit:
            return True         # undecided within the limit: do not raise an alarm
        if i == len(items):
            return True
        it = items[i]
        if it and it[0] == 'tree':
            for tr in it[1]:
                if all(cap[e] >= 1 for e in tr):
                    for e in tr:
                        cap[e] -= 1
                    if rec(i + 1):
                        return True
                    for e in tr:
                        cap[e] += 1
            return False
        for e in it:
            if cap.get(e, 0) >= 1:
                cap[e] -= 1
                if rec(i + 1):
                    return True
                cap[e] += 1
        return False
    return rec(0)


def check_h_attrs_sampler(aa):
    """sampler results carry no 'mapping'; hydrogens that are their own fragment are tagged single_h_frag"""
    for n, d in aa.nodes(data=True):
        if d.get('element') != 'H' or aa.degree(n) != 1 or d.get('single_h_frag') or 'bonding' in d:
            continue
        nb = next(iter(aa[n]))
        for attr in ('fragid', 'fragname', 'weight'):
            if d.get(attr) != aa.nodes[nb].get(attr):
                return 'H-attr:' + attr, {'node': n, 'value': d.get(attr), 'neighbour': aa.nodes[nb].get(attr)}
    return None
