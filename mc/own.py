"""Ownership of nondeterminism: controlled replacement of the stdlib `random`
module inside cgsmiles.sample, a recorder around the real RNG, and fresh-process
references under chosen PYTHONHASHSEED values."""
import json
import os
import random as real_random
import subprocess
import sys


class ReplayDivergence(RuntimeError):
    pass


class Chooser:
    """Answers every RNG call of the sampler from a prescribed choice prefix, then with alternative 0.
    A choice point has one alternative per outcome the real RNG could produce:
      choice(seq)            -> len(seq)
      choices(pop, weights)  -> the indices with weight > 0
    """

    def __init__(self):
        self.reset([])

    def reset(self, prefix):
        self.prefix = list(prefix)
        self.points = []      # (kind, n_enabled)
        self.taken = []
        self.log = []         # (kind, population repr, weights, picked item)
        self.seeded = []

    def _pick(self, n, kind):
        i = len(self.taken)
        c = self.prefix[i] if i < len(self.prefix) else 0
        if c >= n:
            raise ReplayDivergence('choice %d of point %d but only %d enabled' % (c, i, n))
        self.points.append((kind, n))
        self.taken.append(c)
        return c

    def seed(self, a=None, version=2):
        self.seeded.append(a)

    def random(self):
        raise ReplayDivergence('random.random() is not part of the owned interface')

    def choice(self, seq):
        seq = list(seq)
        if not seq:
            raise IndexError('Cannot choose from an empty sequence')
        c = self._pick(len(seq), 'choice')
        self.log.append(('choice', [repr(x) for x in seq], None, repr(seq[c])))
        return seq[c]

    def choices(self, population, weights=None, *, cum_weights=None, k=1):
        if k != 1 or cum_weights is not None:
            raise ReplayDivergence('unsupported choices() call')
        pop = list(population)
        if weights is None:
            if not pop:
                raise IndexError('list index out of range')
            c = self._pick(len(pop), 'choices')
            return [pop[c]]
        w = [float(x) for x in weights]
        if len(w) != len(pop):
            raise ValueError('The number of weights does not match the population')
        if not w:
            raise IndexError('list index out of range')
        tot = sum(w)
        if tot != tot or tot in (float('inf'), float('-inf')):
            raise ValueError('Total of weights must be finite')
        if tot <= 0:
            raise ValueError('Total of weights must be greater than zero')
        en = [i for i, x in enumerate(w) if x > 0]
        c = self._pick(len(en), 'choices')
        self.log.append(('choices', [repr(x) for x in pop], w, repr(pop[en[c]])))
        return [pop[en[c]]]


class Recorder:
    """wraps the real RNG and records which alternative (in Chooser numbering) it took"""

    def __init__(self):
        self.path = []

    def seed(self, a=None, version=2):
        real_random.seed(a)

    def random(self):
        return real_random.random()

    def choice(self, seq):
        seq = list(seq)
        x = real_random.choice(seq)
        # identify by position: draw again deterministically is impossible, so locate the first identical object
        idx = next(i for i, y in enumerate(seq) if y is x or y == x)
        self.path.append(idx)
        return x

    def choices(self, population, weights=None, *, cum_weights=None, k=1):
        pop = list(population)
        x = real_random.choices(pop, weights=weights, k=k)
        if weights is None:
            self.path.append(pop.index(x[0]))
        else:
            en = [i for i, w in enumerate(weights) if float(w) > 0]
            self.path.append(en.index(pop.index(x[0])))
        return x


def explore_choices(run, max_paths=None):
    """stateless depth-first exploration of every answer sequence; `run(prefix)` executes one complete path and
    returns (points, taken, result).  Yields (taken, result) per path; .stats holds counters."""
    stack = [[]]
    stats = {'paths': 0, 'points': 0, 'transitions': 0, 'capped': False}
    while stack:
        prefix = stack.pop()
        points, taken, result = run(prefix)
        if taken[:len(prefix)] != list(prefix):
            raise ReplayDivergence('prefix not reproduced')
        stats['paths'] += 1
        stats['points'] += len(points) - len(prefix)
        stats['transitions'] += len(points) - len(prefix)
        for i in range(len(prefix), len(points)):
            for alt in range(1, points[i][1]):
                stack.append(taken[:i] + [alt])
        yield taken, result, stats
        if max_paths and stats['paths'] >= max_paths:
            stats['capped'] = bool(stack)
            return


def fresh(script, hashseed, timeout=600):
    """run a python script in a fresh interpreter with the given PYTHONHASHSEED; returns parsed JSON of stdout's last line"""
    env = dict(os.environ)
    env['PYTHONHASHSEED'] = str(hashseed)
    env['PBR_VERSION'] = '0.0.0'
    env['PYTHONDONTWRITEBYTECODE'] = '1'
    env['VERIF_REPO'] = os.environ.get('VERIF_REPO', '/repo')
    p = subprocess.run(['/venv/bin/python', '-B', '-c', script], env=env, capture_output=True, text=True, timeout=timeout)
    if p.returncode != 0:
        raise RuntimeError('fresh process failed: ' + p.stderr[-800:])
    lines = [l for l in p.stdout.splitlines() if l.startswith('{') or l.startswith('[')]
    return json.loads(lines[-1])
