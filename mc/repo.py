"""Import the code under test from /repo's working tree and keep it quiet."""
import contextlib
import io
import logging
import os
import sys

REPO = os.environ.get('VERIF_REPO', '/repo')
os.environ.setdefault('PBR_VERSION', '0.0.0')
if REPO not in sys.path:
    sys.path.insert(0, REPO)
sys.dont_write_bytecode = True

logging.disable(logging.CRITICAL)
import warnings  # noqa: E402
warnings.filterwarnings('ignore')

import cgsmiles  # noqa: E402

assert os.path.dirname(os.path.dirname(os.path.abspath(cgsmiles.__file__))) == os.path.abspath(REPO), \
    'cgsmiles was not imported from %s but from %s' % (REPO, cgsmiles.__file__)


class _Null(io.TextIOBase):
    def write(self, s):
        return len(s)


_NULL = _Null()


@contextlib.contextmanager
def quiet():
    """The library prints diagnostics to stdout; keep the protocol channel clean."""
    old = sys.stdout
    sys.stdout = _NULL
    try:
        yield
    finally:
        sys.stdout = old
