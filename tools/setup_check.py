"""MANIFEST.setup_cmd: nothing to build (pure Python); verify the interpreter and the imports the checks need."""
import os, sys
os.environ.setdefault('PBR_VERSION', '0.0.0')
sys.path.insert(0, '/repo')
import networkx, pysmiles, numpy, scipy, rdkit  # noqa
import cgsmiles  # noqa
os.makedirs(os.path.join(os.path.dirname(os.path.dirname(os.path.abspath(__file__))), 'evidence'), exist_ok=True)
print('setup ok: python', sys.version.split()[0], 'networkx', networkx.__version__)
