#!/venv/bin/python
"""Run every registered check (quick or thorough) for several VERIF_SEED values from fresh processes; report alarms.
   sweep.py [--tier quick] [--seeds 1,2,3] [--checks C01,C02] [--keep-evidence]"""
import argparse, json, os, subprocess, sys, time
VERIF = os.path.dirname(os.path.dirname(os.path.abspath(__file__)))
ap = argparse.ArgumentParser()
ap.add_argument('--tier', default='quick')
ap.add_argument('--seeds', default='1,2,3')
ap.add_argument('--checks', default=None)
ap.add_argument('--keep-evidence', action='store_true')
a = ap.parse_args()
man = json.load(open(os.path.join(VERIF, 'MANIFEST.json')))
ids = [c['property_id'] for c in man['checks']]
if a.checks:
    ids = a.checks.split(',')
bad = 0
for seed in a.seeds.split(','):
    for pid in ids:
        env = dict(os.environ, VERIF_SEED=seed)
        t0 = time.time()
        cmd = ['/venv/bin/python', '-B', 'run.py', pid, '--tier', a.tier] + ([] if a.keep_evidence else ['--no-evidence'])
        p = subprocess.run(cmd, cwd=VERIF, env=env, capture_output=True, text=True)
        out = p.stdout + p.stderr
        viol = [l for l in out.splitlines() if l.startswith('VIOLATION') or l.startswith('HARNESS')]
        summ = [l for l in out.splitlines() if l.startswith(pid + ' tier=')]
        flag = 'OK ' if p.returncode == 0 else 'ALARM rc=%d' % p.returncode
        if p.returncode != 0:
            bad += 1
        print('%s seed=%s %s %.0fs %s' % (pid, seed, flag, time.time() - t0, (summ[0][len(pid) + 1:160] if summ else out[-300:])))
        for l in viol[:3]:
            print('    ' + l[:260])
        sys.stdout.flush()
print('alarms:', bad)
