#!/venv/bin/python
"""Regenerate /verif/MANIFEST.json from the table below (kept in one place so the
manifest is always valid and current)."""
import json, os
HERE = os.path.dirname(os.path.dirname(os.path.abspath(__file__)))

CHECKS = {}

def chk(pid, text, note, technique, design):
    CHECKS[pid] = dict(text=text, note=note, technique=technique, design=design)

COMMON_NOTE = ('Trusted base: CPython 3.12, networkx, pysmiles (SMILES parsing / valence), the reference model '
               'named in the evidence file; coverage is complete only within the stated bounds.')

chk('C04',
    'Explicit-state exploration of the documented graph grammar as a token-level transition system; every complete '
    'sentence within the bound (<=5 nodes quick / <=6 thorough, nesting <=3, <=2-3 open rings, every bond position, digit '
    'and %nn markers, annotations, a seed-selected 6-7 node slice) is executed on the real read_cgsmiles and compared '
    'exactly with the reference denotation. Bounded-exhaustive, no sampling.',
    COMMON_NOTE, 'bounded-exhaustive explicit-state enumeration of grammar sentences vs reference denotation, run on the real reader',
    'DESIGN.md section 4 C04')

chk('C05',
    'The grammar transition system extended by multiplier tokens is explored exhaustively within the bound (<=4 written nodes quick / <=5 thorough, '
    'multipliers 1-3 on nodes and on branches, nested, with bond symbols before / inside / between copies / after, ring bonds elsewhere, annotations, '
    'seed-selected slice); each shorthand sentence is rewritten by the reference model R-mult and read(shorthand) is compared with read(longhand) and '
    'with the denotation of the longhand on the real reader. Two recorded defects (nested branch multipliers, >=2 nested groups in a multiplied branch) are reported as KNOWN-FINDING.',
    COMMON_NOTE, 'bounded-exhaustive explicit-state enumeration of shorthand sentences; metamorphic + reference-model oracle on the real reader',
    'DESIGN.md section 4 C05')

chk('C07',
    'Explicit-state enumeration of all connected labelled graphs within the bound (every node pair decided: absent or a bond order; quick: all 4-node graphs '
    'with orders 0-2 x all name assignments over {A,B} x 3 key relabelings, 4-node graphs with orders 1,3,4, all 5-node graphs with orders 1-2 (<=2 non-single); '
    'thorough: 4 nodes orders 0-4, 5 nodes orders 0-2, 6 nodes; seed slice: dense 7-node graphs reaching >=10 open ring markers). Each graph goes through the '
    'real writer and the real reader and is compared up to isomorphism with names and orders.',
    COMMON_NOTE, 'bounded-exhaustive explicit-state enumeration of connected labelled graphs through writer and reader (round-trip oracle)',
    'DESIGN.md section 4 C07')

chk('C13',
    'Token-level transition system over fragment texts (organic / two-letter / aromatic / bracket atoms, coarse nodes, bonds, branches, ring closures with and '
    'without ring bond symbol in digit and %nn style, all four descriptor kinds with labels and order symbols . = #, placed after any atom, before or after its ring '
    'digits, after a closed branch, leading descriptors, annotations inside bracket atoms, node and branch multipliers in coarse fragments); every complete text '
    'within the bound (about 13 million texts quick) is given to the real strip_bonding_descriptors and compared exactly with the reference separation.',
    COMMON_NOTE, 'bounded-exhaustive explicit-state enumeration of fragment texts vs reference separation, run on the real tokenizer',
    'DESIGN.md section 4 C13')

chk('C01',
    'Derivation exploration: all canonical molecules reachable by growth within the valence table (quick: <=2 atoms over 10 element/charge types with the full '
    'rendering product, <=3 atoms over the same alphabet and <=4 atoms over C,N,O with a reduced rendering set; thorough: larger bounds and full products) plus 27 feature '
    'molecules (charged, hypervalent, rings, aromatic templates, S-aryl) and a seed-selected slice; for every molecule the complete decision tree partition x descriptor '
    'kinds x fragment order x start atoms x rendering style x constructor is enumerated and every leaf is resolved on the real MoleculeResolver and compared with the '
    'molecule model (R-valence hydrogens) and with the resolution of the uncut molecule.',
    COMMON_NOTE + ' The valence table and the SMILES renderer are validated per molecule against the uncut resolution.',
    'bounded-exhaustive derivation exploration (molecule x cut x rendering) with model + differential oracle on the real resolver',
    'DESIGN.md section 4 C01')

chk('C02',
    'Base graph strings of the graph grammar (<=3 nodes quick / <=4 thorough, branches, rings, multiplied units, repeated names) x every assignment of 21 atomistic '
    'and 11 coarse fragment templates (internal rings, charges, annotated and explicit H, shared atoms, labelled / directional / surplus descriptors) x matching convention, '
    'plus the multi-level strings of the C06 generator, enumerated completely; after every real resolve() step the mapping invariants are evaluated (fragid lists, coarse '
    'graph node sets, cover, template copies with names/elements, internal bonds and orders, annotations, fragname).',
    COMMON_NOTE, 'bounded-exhaustive enumeration of base graph x fragment library; mapping invariant evaluated after every real resolution step',
    'DESIGN.md section 4 C02')
chk('C03',
    'Same enumeration as C02 with edge orders 0-2, templates chosen for ambiguity and both matching conventions, plus the dedicated family (C01 cuts: one uniquely labelled '
    'descriptor pair per cut bond, where the number of bonds must equal the base edge order); every inter-fragment edge of every result is judged against the reference '
    'compatibility relation, template descriptor lists (no descriptor used twice), annotated order, base graph adjacency and edge order (attribution by assignment search at shared atoms).',
    COMMON_NOTE, 'bounded-exhaustive enumeration of base graph x ambiguous fragment library x convention; bond invariants vs reference compatibility relation',
    'DESIGN.md section 4 C03')
chk('C06',
    'Bottom graphs (10 feature molecules with every partition into 2-4 fragments, 6 coarse named graphs, a seed-selected slice) x every hierarchical grouping (all partitions '
    'of the previous level into connected groups, up to 2-3 intermediate levels) x variants (descriptor kinds, fragment names reused across levels, one crossing edge expressed '
    'by a shared node at an intermediate level); each multi-level string is driven three ways (repeated resolve with step invariants, resolve_iter, resolve_all) on the real '
    'resolver and compared with the flattened two-level resolution.',
    COMMON_NOTE, 'bounded-exhaustive enumeration of hierarchical groupings x resolver driving histories; differential + step invariants',
    'DESIGN.md section 4 C06')

chk('C09',
    'The valence invariant (R-valence hydrogens on every non-hydrogen atom within the usual valence, every hydrogen of degree 1 carrying its anchor\'s fragid, fragname '
    'and weight) is evaluated on every all-atom result of three exhaustive explorations: base graph x fragment library with ambiguous / surplus descriptors, charged atoms, '
    'explicit annotated hydrogens and single-hydrogen fragments; the C01 cut / rendering leaves of the feature molecules (aromatic units split across fragments); and the '
    'complete RNG choice trees of the all-atom sampler configurations.',
    COMMON_NOTE, 'valence invariant on every result of bounded-exhaustive input enumeration and exhaustive sampler choice-tree exploration',
    'DESIGN.md section 4 C09')
chk('C16',
    'Stateless exhaustive exploration of the sampler\'s RNG choice tree: cgsmiles.sample.random is replaced by a controlled chooser and for 12 (quick) / 14 configurations '
    '(1-4 fragments, mixed descriptor kinds / labels / orders, reactivity tables with zeros and conditional tables, terminal sets, fixed / free start, coarse and all-atom) and '
    'target weights forcing 1-5 growth steps every answer sequence with non-zero weight is executed on the real sample(); every returned molecule is judged (connected tree of '
    'template copies, complementary descriptors of equal order, none used twice, canonical numbering, valence). Plus all ordered pairs of paths on ONE sampler object (history) '
    'and conformance of the chooser against the real RNG for recorded seeds. Each path is executed twice (first 200 per tree in quick) and must reproduce.',
    COMMON_NOTE + ' The sampler is assumed to draw only through stdlib random (checked: growth without a choice point is a harness error).',
    'stateless exhaustive choice-tree exploration of owned RNG nondeterminism on the real sampler (replay-based DFS) + history pairs',
    'DESIGN.md section 4 C16')
chk('C17',
    'Per path of the C16 choice trees: added mass reaches the target and not without the last fragment, element-derived masses equal the reference masses, every weight vector '
    'handed to the RNG follows a reactivity table (zero exactly where the table is zero), chosen site / partner have non-zero reactivity, terminal rules on the final descriptor '
    'lists. Plus breadth-first exploration of construct-and-sample histories (depth <= 3-4 over construct+sample units, foreign RNG draws, other samplers) with the real RNG against '
    'fresh-process references computed under 4-6 PYTHONHASHSEED values.',
    COMMON_NOTE, 'exhaustive RNG choice-tree exploration + explicit-state history exploration with fresh-process references',
    'DESIGN.md section 4 C17')

chk('C10',
    'Molecules and partitions of the C01 generator (all molecules with <=3 atoms over C,N,O and <=4 atoms over C,O quick; larger in thorough; feature molecules incl. aromatic '
    'templates; star centres) x every non-empty subset of the single / aromatic cut bonds expressed by sharing an end atom x which end is duplicated x descriptor kind of the '
    'other cuts x every order of the fragments in the base graph (all permutations up to 4 fragments) x constructor; each leaf resolved on the real resolver and compared with the '
    'molecule model, the uncut resolution and the expected coarse-key sets of the shared atoms.',
    COMMON_NOTE, 'bounded-exhaustive derivation exploration of overlapping fragment descriptions; model + differential oracle',
    'DESIGN.md section 4 C10')

chk('C11',
    'Every (base string <=3-4 nodes, fragment library) of the bounded family x every decoration: 1-2 fragment-less nodes as prefix, zero-order branch after any node, suffix, with '
    'an additional zero-order ring bond to any other node, and extra zero-order ring bonds between any two non-adjacent real nodes; the decorated resolution must be identical (keys, '
    'attributes, edges) to the undecorated one after mapping coarse keys, every real coarse node owns the same atoms, virtual nodes own none; the negative family (same node attached with order 1-2) must raise SyntaxError.',
    COMMON_NOTE, 'bounded-exhaustive enumeration of decorations of resolvable strings; differential oracle on the real resolver',
    'DESIGN.md section 4 C11')
chk('C12',
    '(a,b) every case of the base graph x library x convention family: numbering invariants, identical canonical dumps for every permutation of the fragment definitions and through '
    'the three constructors with the library dump unchanged; batches of ~5000 strings re-resolved in fresh interpreters under 4-6 PYTHONHASHSEED values and compared digest by digest; '
    '(c) breadth-first exploration (depth 3-4) of histories of constructor / resolve / read_fragments / sampler calls sharing one fragment library object: every output equals the single-call '
    'reference and the library is never modified. One recorded defect (atom names next to shared atoms) is reported as KNOWN-FINDING.',
    COMMON_NOTE, 'bounded-exhaustive configuration enumeration + explicit-state (BFS) history exploration + fresh-process references per hash seed',
    'DESIGN.md section 4 C12')

chk('C14',
    'Derivation exploration of annotation spellings: abstract content (value or absence of each reserved key from a table of numeric spellings, 0-2 free keys) -> positional prefix / keyword split '
    '-> every order of the entries incl. keyword entries in front of positional ones; at base-graph level (read, and resolved with node reuse 1-3), atomistic fragment level (bracket atoms, annotated '
    'hydrogen, single-atom fragment, stereocentre; fragment reuse 1-3) and coarse fragment level (keyword form). Oracle: reference semantics R-annot of the abstract content on the reader output, '
    'on the fragment template and on every copy in the resolved graphs. One recorded defect (q on coarse fragment nodes) is reported as KNOWN-FINDING.',
    COMMON_NOTE, 'bounded-exhaustive derivation of annotation spellings vs reference semantics on reader and resolver',
    'DESIGN.md section 4 C14')
chk('C20',
    'Fault enumeration over exhaustively generated hosts: every valid sentence of the graph grammar within the bound (<=4-5 nodes, branches, rings in both marker styles, bond symbols, multipliers; '
    'seed-selected 6-node slice) and every resolver input of the bounded family x every injection position of the listed faults (dangling ring marker, duplicate edge via ring bond, node without fragment, '
    'annotation with two "=", too many positional values, non-numeric reserved value, on graph nodes and on bracket atoms); about 4 million faulty inputs in the quick tier; each must raise the documented '
    'class on the real reader / resolver and return no graph. Injections that yield a valid input are recognised by the reference denotation and dropped.',
    COMMON_NOTE, 'exhaustive fault-position enumeration over bounded-exhaustively generated valid inputs',
    'DESIGN.md section 4 C20')

chk('C15',
    'Stereo double bond family (5 x 4 ligand position forms, both relations, every slash-mark pair that pysmiles reads as the intended relation on the uncut text) x 6 cut placements (none, at the double '
    'bond, at single bonds elsewhere on either side, combined, at the ligand bond) x every order of the fragments in the base graph x descriptor kind; stereocentre family (3 molecules incl. an S-aryl one, 5 label '
    'spellings) x every subset of the cuttable bonds around the centre (the centre alone included) x fragment orders. Oracle: relation between F and Cl as intended, every stored 4-path exists with a double bond '
    'in the middle, the chirality label sits exactly on the atom with the right neighbourhood. Two recorded defects (fragment-order dependent flip of a cut double bond; mark lost at a cut ligand bond) are KNOWN-FINDINGs.',
    COMMON_NOTE + ' pysmiles.read_smiles on the uncut text defines which marks mean cis / trans.',
    'bounded-exhaustive enumeration of stereo molecules x cut placements x fragment orders on the real resolver',
    'DESIGN.md section 4 C15')

chk('C08',
    '(1) Fragment texts from the C13 token-level generator (atomistic and coarse; all four descriptor kinds, labels, descriptor orders 0-3, up to 3 descriptors per atom in every order, leading '
    'descriptors, rings, charged and two-letter atoms, an aromatic unit), two-fragment sets, all connected labelled 5-node graphs with >=3 ring edges as coarse fragments and a list of polycyclic SMILES: '
    'every text the reader accepts is read, written and read again and compared up to isomorphism incl. the ordered descriptor list per atom. (2) Complete strings with uniquely labelled descriptor pairs '
    '(C01 cut / rendering leaves, C06 multi-level strings) are written from an unresolved resolver and resolved again; the molecule must equal the original resolution.',
    COMMON_NOTE, 'bounded-exhaustive enumeration of fragment sets / complete strings through the real writer and reader (round-trip oracle)',
    'DESIGN.md section 4 C08')

chk('C18',
    'Molecules (10 resolved CGsmiles strings incl. shared atoms, rings, charged and weighted atoms, 10 pysmiles-read molecules, a seed-selected larger molecule) x node order (all permutations up to 5 atoms, 8 fixed '
    'permutations above) x key relabeling x conformer / no conformer x pinned RDKit embedding seeds x weight patterns x translations, all enumerated. Oracles: round trip through RDKit preserves element, charge, bond order '
    'and hydrogen count; after embedding every bond length lies within [0.70, 1.35] x the sum of covalent radii; every bead is the weight-normalised average of exactly its own atoms and follows translations.',
    COMMON_NOTE + ' RDKit embedding / UFF are pinned by seed and trusted; embedding failures are inconclusive.',
    'bounded-exhaustive configuration enumeration (orderings, relabelings, weights, translations, pinned seeds) on the real bridge',
    'DESIGN.md section 4 C18')
chk('C19',
    'Every connected graph with 2-6 nodes up to isomorphism (143 graphs of the networkx atlas; 7 nodes in thorough), 10 resolved molecules with hydrogens, rings and cis / trans annotated double bonds, a seed-selected slice of '
    '7-node graphs x 5 relabelings (incl. offset, interleaved insertion order, string keys) x 3 bond-length settings x 3-8 pinned numpy RNG seeds; vespr_layout must return one finite 2-vector per node, no coinciding bonded '
    'nodes and a mean bond length equal to default_bond (1e-9). The refined layout is judged on all trees with 3-7 nodes (tolerance 5e-3).',
    COMMON_NOTE + ' "All RNG seeds" is covered for the enumerated seed set only.',
    'exhaustive enumeration of small connected graphs x configurations (relabelings, scales, pinned RNG seeds) on the real layout functions',
    'DESIGN.md section 4 C19')

NOT_YET = {}

def main():
    props = [json.loads(l) for l in open(os.path.join(HERE, 'properties.jsonl'))]
    checks = []
    na = []
    for p in props:
        pid = p['id']
        if pid in CHECKS and os.path.exists(os.path.join(HERE, 'mc', 'props', pid.lower() + '.py')):
            c = CHECKS[pid]
            checks.append({
                'property_id': pid,
                'quick_cmd': '/venv/bin/python -B run.py %s --tier quick' % pid,
                'thorough_cmd': '/venv/bin/python -B run.py %s --tier thorough' % pid,
                'evidence_file': '/verif/evidence/%s.json' % pid,
                'replay_cmd_template': '/venv/bin/python -B run.py %s --replay {path}' % pid,
                'engine': 'mc-explorer',
                'level_claimed': {'category': 'model_checking', 'text': c['text'], 'design_ref': c['design']},
                'level_note': c['note'],
                'technique': c['technique'],
            })
        else:
            na.append({'property_id': pid,
                       'reason': NOT_YET.get(pid, 'check not built yet in this round; model checking applies (see DESIGN.md section 4), nothing is claimed until the check exists')})
    man = {
        'version': 1,
        'setup_cmd': '/venv/bin/python -B tools/setup_check.py',
        'hooks': {
            'guard': 'CGSMILES_VERIF',
            'enable': 'no source hooks: the harness imports /repo\'s working tree directly (pure Python, no build) and wraps module-level callables from outside; run.py sets CGSMILES_VERIF=1 for completeness',
            'baseline_off_cmd': 'cd /repo && /venv/bin/python -m pytest -ra -q -p no:cacheprovider --timeout=900',
            'source_commits': [],
            'add_only': True,
        },
        'engines': [{
            'name': 'mc-explorer',
            'path': '/verif/mc/core.py',
            'serves_properties': [c['property_id'] for c in checks],
            'kind_free_text': 'hand-written explicit-state / bounded-exhaustive explorer in Python running the real cgsmiles code on every terminal state, with reference models under mc/ref and mc/gen',
        }],
        'checks': checks,
        'not_applicable': na,
        'notes': 'All checks: /venv/bin/python -B run.py <ID> --tier quick|thorough; VERIF_SEED selects an additional exhaustively enumerated slice. known_findings.json lists recorded/fixed defects.',
    }
    json.dump(man, open(os.path.join(HERE, 'MANIFEST.json'), 'w'), indent=1)
    print('MANIFEST.json: %d checks, %d not_applicable' % (len(checks), len(na)))

if __name__ == '__main__':
    main()
