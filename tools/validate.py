#!/opt/veriftools/pyvenv/bin/python
"""Validate MANIFEST.json and evidence/*.json against the given schemas (run with python3-vt)."""
import json, sys, glob, jsonschema
man = json.load(open('/verif/MANIFEST.json'))
jsonschema.validate(man, json.load(open('/root/.vp/MANIFEST.schema.json')))
es = json.load(open('/root/.vp/EVIDENCE.schema.json'))
bad = 0
for f in sorted(glob.glob('/verif/evidence/*.json')):
    try:
        jsonschema.validate(json.load(open(f)), es)
    except Exception as e:
        bad += 1
        print('INVALID', f, str(e)[:300])
print('manifest ok;', len(glob.glob('/verif/evidence/*.json')), 'evidence files,', bad, 'invalid')
sys.exit(1 if bad else 0)
