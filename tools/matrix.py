#!/venv/bin/python
"""Run seeded changes against checks in a scratch worktree (leaves /repo alone).

   matrix.py [--only REGEX] [--checks C01,C02]     default: each seeded change against the check of its own property
Writes seeded/<id>/meta.json (detected_by) and seeded/MATRIX.md."""
import argparse, json, os, re, subprocess, sys, time
VERIF = os.path.dirname(os.path.dirname(os.path.abspath(__file__)))
WT = '/tmp/wt/matrix'

def sh(cmd, cwd=None, env=None, timeout=3600):
    p = subprocess.run(cmd, shell=True, cwd=cwd, env=env, capture_output=True, text=True, timeout=timeout)
    return p.returncode, p.stdout + p.stderr

def main():
    ap = argparse.ArgumentParser()
    ap.add_argument('--only', default='.')
    ap.add_argument('--checks', default=None)
    ap.add_argument('--tier', default='quick')
    a = ap.parse_args()
    head = sh('git -C /repo rev-parse HEAD')[1].strip().splitlines()[-1]
    if not os.path.isdir(WT):
        rc, out = sh('git -C /repo worktree add -q --detach %s %s' % (WT, head))
        assert rc == 0, out
    sh('git checkout -q --detach %s && git checkout -- .' % head, cwd=WT)
    env = dict(os.environ, VERIF_REPO=WT, PBR_VERSION='0.0.0')
    rows = []
    for sid in sorted(os.listdir(os.path.join(VERIF, 'seeded'))):
        d = os.path.join(VERIF, 'seeded', sid)
        if not os.path.isdir(d) or not re.search(a.only, sid):
            continue
        meta = json.load(open(os.path.join(d, 'meta.json')))
        checks = a.checks.split(',') if a.checks else [meta['property']]
        rc, out = sh('git apply %s' % os.path.join(d, 'patch.diff'), cwd=WT)
        if rc != 0:
            print(sid, 'patch does not apply')
            continue
        try:
            for c in checks:
                t0 = time.time()
                rc, out = sh('/venv/bin/python -B run.py %s --tier %s --no-evidence' % (c, a.tier), cwd=VERIF, env=env)
                viol = [l for l in out.splitlines() if l.startswith('VIOLATION')]
                meta.setdefault('detected_by', {})[c] = {'rc': rc, 'violation_lines': len(viol), 'first': viol[0][:300] if viol else None,
                                                          'tier': a.tier, 'repo_head': head[:7]}
                print('%-7s %-4s rc=%d viol=%d %.0fs %s' % (sid, c, rc, len(viol), time.time() - t0, (viol[0][:150] if viol else '')))
                sys.stdout.flush()
        finally:
            sh('git checkout -- .', cwd=WT)
        json.dump(meta, open(os.path.join(d, 'meta.json'), 'w'), indent=1)
    write_matrix()

def write_matrix():
    lines = ['# Seeded changes x checks (quick tier unless noted)', '',
             '| seeded change | property | what it needs | detected by (exit 1) | not detected by |', '|---|---|---|---|---|']
    for sid in sorted(os.listdir(os.path.join(VERIF, 'seeded'))):
        d = os.path.join(VERIF, 'seeded', sid)
        if not os.path.isdir(d):
            continue
        m = json.load(open(os.path.join(d, 'meta.json')))
        det = [c for c, r in sorted(m.get('detected_by', {}).items()) if r['rc'] == 1]
        nd = [c for c, r in sorted(m.get('detected_by', {}).items()) if r['rc'] == 0]
        lines.append('| %s | %s | %s | %s | %s |' % (sid, m['property'], str(m.get('needs', '')).replace('|', '/').replace('\n', ' ')[:160], ', '.join(det) or '-', ', '.join(nd) or '-'))
    open(os.path.join(VERIF, 'seeded', 'MATRIX.md'), 'w').write('\n'.join(lines) + '\n')

if __name__ == '__main__':
    main()
