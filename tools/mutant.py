#!/venv/bin/python
"""Confirm a seeded change and run checks against it.

  mutant.py confirm <worktree> <x> <seed-id> <PROP>   # x in a,b : validates patch_x/demo_x in a scratch worktree,
                                                        # stores it under /verif/seeded/<seed-id>/
  mutant.py run <seed-id> <CHECK> [<CHECK>...]          # applies seeded/<seed-id>/patch.diff to /repo, runs quick checks, reverts
"""
import json
import os
import shutil
import subprocess
import sys
import time

VERIF = os.path.dirname(os.path.dirname(os.path.abspath(__file__)))
ENV = dict(os.environ, PBR_VERSION='0.0.0')


def sh(cmd, cwd=None, timeout=1800):
    p = subprocess.run(cmd, shell=True, cwd=cwd, env=ENV, capture_output=True, text=True, timeout=timeout)
    return p.returncode, p.stdout + p.stderr


def confirm(wt, x, sid, prop):
    rec = {'property': prop, 'ran': []}
    head = sh('git -C /repo rev-parse HEAD')[1].strip().splitlines()[-1]
    # bring the scratch worktree to /repo's current HEAD, clean
    rc, out = sh('git checkout -q --detach %s && git checkout -- cgsmiles' % head, cwd=wt)
    assert rc == 0, out
    patch = os.path.join(wt, 'patch_%s.diff' % x)
    demo = os.path.join(wt, 'demo_%s.py' % x)
    rc, out = sh('/venv/bin/python %s' % demo, cwd=wt)
    rec['ran'].append({'cmd': 'demo on clean tree @%s' % head[:7], 'rc': rc})
    if rc != 0:
        print('demo fails on clean tree:', out[-500:])
        return 1
    rc, out = sh('git apply %s' % patch, cwd=wt)
    if rc != 0:
        print('patch does not apply on current HEAD:', out[-500:])
        return 1
    try:
        rc, out = sh('/venv/bin/python -m pytest -q -p no:cacheprovider', cwd=wt)
        tail = out.strip().splitlines()[-1]
        rec['ran'].append({'cmd': 'pytest with change', 'rc': rc, 'tail': tail})
        if rc != 0:
            print('test suite fails with the change:', tail)
            return 1
        rc, out = sh('/venv/bin/python %s' % demo, cwd=wt)
        rec['ran'].append({'cmd': 'demo with change', 'rc': rc, 'out': out[-400:]})
        if rc == 0:
            print('demo passes with the change (no break shown)')
            return 1
        diff = sh('git diff -- cgsmiles', cwd=wt)[1]
        diff = '\n'.join(l for l in diff.splitlines() if not l.startswith('WARNING conda')) + '\n'
    finally:
        sh('git checkout -- cgsmiles', cwd=wt)
    d = os.path.join(VERIF, 'seeded', sid)
    os.makedirs(d, exist_ok=True)
    open(os.path.join(d, 'patch.diff'), 'w').write(diff)
    shutil.copy(demo, os.path.join(d, 'demo.py'))
    meta = json.load(open(os.path.join(wt, 'meta_%s.json' % x)))
    meta['property'] = prop
    meta['confirmed'] = rec['ran']
    meta['confirmed_at_repo_head'] = head[:7]
    meta.setdefault('detected_by', {})
    json.dump(meta, open(os.path.join(d, 'meta.json'), 'w'), indent=1)
    print('confirmed and stored', d)
    return 0


def run(sid, checks):
    d = os.path.join(VERIF, 'seeded', sid)
    st = sh('git -C /repo status --porcelain')[1]
    st = [l for l in st.splitlines() if not l.startswith('WARNING')]
    assert not st, '/repo not clean: %r' % st
    rc, out = sh('git -C /repo apply %s' % os.path.join(d, 'patch.diff'))
    if rc != 0:
        print('patch does not apply:', out[-300:])
        return 1
    meta = json.load(open(os.path.join(d, 'meta.json')))
    try:
        for c in checks:
            t0 = time.time()
            rc, out = sh('/venv/bin/python -B run.py %s --tier quick --no-evidence' % c, cwd=VERIF, timeout=3600)
            viol = [l for l in out.splitlines() if l.startswith('VIOLATION')]
            print('%s: rc=%d violations=%d %.0fs %s' % (c, rc, len(viol), time.time() - t0, viol[0][:230] if viol else ''))
            meta.setdefault('detected_by', {})[c] = {'rc': rc, 'violation_lines': len(viol),
                                                      'first': viol[0][:300] if viol else None}
    finally:
        sh('git -C /repo checkout -- .')
    json.dump(meta, open(os.path.join(d, 'meta.json'), 'w'), indent=1)
    return 0


if __name__ == '__main__':
    if sys.argv[1] == 'confirm':
        sys.exit(confirm(*sys.argv[2:6]))
    else:
        sys.exit(run(sys.argv[2], sys.argv[3:]))
