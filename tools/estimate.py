#!/venv/bin/python
"""estimate CPU cost of a check by timing a random sample of its tasks:  estimate.py C01 quick [n_per_space]"""
import sys, os, time, random, importlib
sys.path.insert(0, os.path.dirname(os.path.dirname(os.path.abspath(__file__)))); os.environ.setdefault('PBR_VERSION', '0.0.0')
from mc import repo
from mc.core import Result
import multiprocessing as mp
mod = importlib.import_module('mc.props.' + sys.argv[1].lower())
tier = sys.argv[2]
k = int(sys.argv[3]) if len(sys.argv) > 3 else 8
t0 = time.time()
tasks = mod.plan(tier, int(os.environ.get('VERIF_SEED', '0')))
print('plan: %d tasks in %.1fs' % (len(tasks), time.time() - t0))
by = {}
for t in tasks:
    by.setdefault(t.get('space', 'main'), []).append(t)
random.seed(1)
sample = [t for sp, ts in by.items() for t in random.sample(ts, min(k, len(ts)))]

def run(t):
    R = Result(); R.begin('x'); t0 = time.time()
    with repo.quiet():
        mod.run_task(t, R)
    return t.get('space', 'main'), R.evaluations, time.time() - t0, R.nviol, dict(R.viol_classes), R.skipped

if __name__ == '__main__':
    with mp.Pool(16) as p:
        res = p.map(run, sample)
    tot = 0
    for sp, ts in by.items():
        rs = [r for r in res if r[0] == sp]
        est = sum(r[2] for r in rs) / len(rs) * len(ts)
        tot += est
        print('%-20s tasks=%5d est_evals=%9d est_cpu=%7.0fs max_task=%.1fs viol=%d skipped=%d %s' % (
            sp, len(ts), sum(r[1] for r in rs) / len(rs) * len(ts), est, max(r[2] for r in rs), sum(r[3] for r in rs),
            sum(r[5] for r in rs), {k: v for r in rs for k, v in r[4].items()}))
    print('total est cpu %.0fs -> wall on 16 cores ~%.0fs' % (tot, tot / 16))
