#!/venv/bin/python
"""CLI of the CGsmiles model-checking harness.

    run.py <ID> [--tier quick|thorough] [--jobs N] [--replay FILE]

Exit 0: property held on everything explored (KNOWN-FINDING lines possible).
Exit 1: at least one `VIOLATION property=<ID> replay=<path>` line.
Exit 2: harness error.
"""
import os
import sys

HERE = os.path.dirname(os.path.abspath(__file__))


def _reexec():
    """Run under /venv/bin/python -B with an empty pycache prefix so that byte
    code lying next to /repo's sources can never shadow an edited source."""
    if os.environ.get('VERIF_CHILD') == '1':
        return
    env = dict(os.environ)
    env['VERIF_CHILD'] = '1'
    env.setdefault('PBR_VERSION', '0.0.0')
    env.setdefault('PYTHONHASHSEED', '0')
    cache = os.path.join(HERE, '.cache', 'pyc-empty')
    os.makedirs(cache, exist_ok=True)
    env['PYTHONPYCACHEPREFIX'] = cache
    env['PYTHONDONTWRITEBYTECODE'] = '1'
    env['CGSMILES_VERIF'] = '1'
    # one BLAS / OpenMP thread per worker process (the pool already uses every core)
    for k in ('OMP_NUM_THREADS', 'OPENBLAS_NUM_THREADS', 'MKL_NUM_THREADS', 'NUMEXPR_NUM_THREADS'):
        env.setdefault(k, '1')
    py = '/venv/bin/python'
    os.execve(py, [py, '-B', os.path.abspath(__file__)] + sys.argv[1:], env)


if __name__ == '__main__':
    _reexec()
    sys.path.insert(0, HERE)
    from mc import cli
    sys.exit(cli.main(sys.argv[1:]))
